//go:build verif

package peers

// C17 correspondence + oracle harness, part 3: the peer Manager at LOCK GRANULARITY
// (see /verif/coq/theories/Peers/Fine.v).
//
// The Manager holds no lock across a call, so another call can run between two of its critical sections.  This
// harness makes those intermediate states reachable on the REAL Manager, deterministically: every Manager call of a
// history runs in its own goroutine ("thread"), exactly one thread runs at a time, and a running thread can be
// PARKED at named points inside the real code while the scheduler starts / resumes other threads:
//
//   - log statements of manager.go (the package variable `log` is replaced by a logger whose zap core calls back
//     into the scheduler): "blacklisting peer" (loop head of blacklistPeers), "got hash from shrex-sub" (Validate
//     after all its checks, before p.add), "pool marked validated" (validatedPool after the CompareAndSwap), "removing
//     outdated peer from pool", "removing blacklisted peer ...", "got peer" (Peer after its last check), "peer
//     disconnected ..." (between nodes.has and nodes.remove);
//   - the connection gater's datastore write (BlockPeer persists the peer before it takes its lock and starts
//     reporting the peer as blocked): between nodes.remove and the moment the peer counts as blacklisted;
//   - Network().ClosePeer of a wrapped host: after BlockPeer, before the next peer of the list;
//   - the queue mutex of the general pool (taken first by nodes.add / nodes.putOnCooldown): the scheduler holds it
//     while the thread runs and sees the thread queue up behind it (mutex waiter count) = parked between the
//     blacklist test and nodes.add of UpdateNodePool / validatedPool / Validate.
//
// Parking is a channel rendezvous inside the callback (no sleeps, no timing); the only polling is the wait for the
// mutex waiter, which ends because the thread either queues up or returns.
//
// L2: the schedule (spawn / run-to-label / run-to-end / age / tick) with what every call returned and the final
//     state, evaluated by CN.Peers.Fine.fmismatches.
// L3: a peer that was blacklisted BEFORE a Peer call began is never returned by that call; a peer is in the general
//     pool only if a discovery add or an announcement of a confirmed hash for it has begun; pool bookkeeping; no call
//     hangs.

import (
	"context"
	"fmt"
	"sort"
	"strings"
	"testing"
	"time"

	"github.com/ipfs/go-datastore"
	logging "github.com/ipfs/go-log/v2"
	pubsub "github.com/libp2p/go-libp2p-pubsub"
	"github.com/libp2p/go-libp2p/core/host"
	"github.com/libp2p/go-libp2p/core/network"
	"github.com/libp2p/go-libp2p/core/peer"
	"go.uber.org/zap"
	"go.uber.org/zap/zapcore"

	"github.com/celestiaorg/celestia-node/header"
	"github.com/celestiaorg/celestia-node/share/shwap/p2p/shrex/shrexsub"
	zv "github.com/celestiaorg/celestia-node/zzverif"
)

const c17FineHeader = `From Coq Require Import List ZArith NArith.
From CN Require Import Peers.Pool Peers.Manager Peers.Fine.
Import ListNotations.
Open Scope N_scope.
`

// log message -> label of the critical section that FOLLOWS it
var c17LogLabels = map[string]string{
	"blacklisting peer":                                    "LBlacklisting",
	"got hash from shrex-sub":                              "LValidateAdd",
	"pool marked validated":                                "LMarked",
	"removing outdated peer from pool":                     "LRemoveOutdated",
	"removing blacklisted peer from discovered nodes pool": "LRemoveBlack",
	"got peer": "LGotPeer",
	"peer disconnected, removing from discovered nodes pool": "LDisconnect",
}

// labels a call of the given kind can be parked at
func c17CallLabels(op c17MOp) []string {
	switch op.Op {
	case "validate":
		return []string{"LValidateAdd", "LValidateAdd", "LNodesQ"}
	case "header":
		return []string{"LMarked", "LNodesQ"}
	case "peer":
		return []string{"LMarked", "LNodesQ", "LRemoveOutdated", "LRemoveBlack", "LGotPeer", "LGotPeer"}
	case "done":
		switch op.Res {
		case "blacklist":
			return []string{"LBlacklisting", "LBlock", "LBlock", "LBlock", "LClose"}
		case "cooldown":
			return []string{"LNodesQ"}
		}
		return nil
	case "update":
		if op.Added {
			return []string{"LNodesQ"}
		}
		return nil
	case "disconnect":
		return []string{"LDisconnect"}
	case "gc":
		return []string{"LBlacklisting", "LBlock", "LBlock", "LClose"}
	}
	return nil
}

// c17GateFree: the call never takes the general pool's queue mutex (so it can run while a thread is parked on it)
func c17GateFree(op c17MOp) bool {
	switch op.Op {
	case "gc", "disconnect":
		return true
	case "done":
		return op.Res == "blacklist" || op.Res == "noop"
	case "update":
		return !op.Added
	}
	return false
}

type c17FOp struct {
	Op   string  `json:"op"` // spawn run runto age tick
	T    int     `json:"t"`
	Call *c17MOp `json:"call,omitempty"`
	L    string  `json:"l,omitempty"`
	H    int     `json:"h,omitempty"`
	D    int     `json:"d,omitempty"`
}

type c17FSeq struct {
	Kind   string   `json:"kind"` // "mgr-fine"
	Enable bool     `json:"enable"`
	NP     int      `json:"np"`
	NH     int      `json:"nh"`
	Ops    []c17FOp `json:"ops"`
}

type c17FCase struct {
	Seq    c17FSeq  `json:"seq"`
	Events []string `json:"events"`
	Outs   []string `json:"outs"`
	Final  string   `json:"final"`
}

type c17FThread struct {
	id       int
	call     c17MOp
	body     func()
	resume   chan struct{}
	done     chan struct{}
	started  bool
	finished bool
	reported bool
	parked   string // label the thread is parked at
	gated    bool   // parked behind the general pool's queue mutex, which the scheduler holds
	stop     string // label to park at in the current run segment
	panicked string

	out            string          // Coq [mout]
	src            string          // "source" field of the "got peer" log line
	got            *c17Outstanding // what Peer returned
	target         *c17Outstanding // the DoneFunc this thread calls
	order          []int           // peers this thread appended to nodes.peersList, in list order (= its map iteration order)
	adds           int
	gcOrder        []int
	snap           []peer.ID // nodes.peersList when the thread last reported
	blockedAtStart map[int]bool
	overlapped     bool // another thread ran while this one was parked
}

type c17FineRun struct {
	*c17MgrRun
	t                         *testing.T
	fseq                      c17FSeq
	threads                   []*c17FThread
	cur                       *c17FThread
	yield                     chan struct{}
	gateBusy                  bool
	hev                       []func() string
	fexec                     []c17FOp
	headerBusy, discBusy      bool
	scripted                  bool
	missed                    int
	hot                       int // peer most recently involved in a blacklisting call (-1: none)
	interleaved, blacklisting bool
}

// c17FineCur is the run the hooks report to (one run at a time)
var c17FineCur *c17FineRun

// ---- hooks
type c17Core struct{}

func (c17Core) Enabled(zapcore.Level) bool          { return true }
func (c c17Core) With([]zapcore.Field) zapcore.Core { return c }
func (c17Core) Sync() error                         { return nil }
func (c c17Core) Check(e zapcore.Entry, ce *zapcore.CheckedEntry) *zapcore.CheckedEntry {
	return ce.AddCore(e, c)
}

func (c17Core) Write(e zapcore.Entry, fs []zapcore.Field) error {
	x := c17FineCur
	if x == nil {
		return nil
	}
	if e.Message == "got peer" {
		if t := x.cur; t != nil {
			for _, f := range fs {
				if f.Key == "source" {
					if f.Type == zapcore.StringType {
						t.src = f.String
					} else {
						t.src = fmt.Sprint(f.Interface)
					}
				}
			}
		}
	}
	if l, ok := c17LogLabels[e.Message]; ok {
		x.hook(l)
	}
	return nil
}

type c17HookDS struct{ datastore.Datastore }

func (d c17HookDS) Put(ctx context.Context, k datastore.Key, v []byte) error {
	if x := c17FineCur; x != nil && strings.Contains(k.String(), "/peer/") {
		x.hook("LBlock")
	}
	return d.Datastore.Put(ctx, k, v)
}

type c17HookHost struct{ host.Host }

func (h c17HookHost) Network() network.Network { return c17HookNet{h.Host.Network()} }

type c17HookNet struct{ network.Network }

func (n c17HookNet) ClosePeer(p peer.ID) error {
	if x := c17FineCur; x != nil {
		x.hook("LClose")
	}
	return n.Network.ClosePeer(p)
}

// hook runs inside the real call (in whatever goroutine executes it); exactly one thread runs at a time, so the
// current thread is the scheduler's.
func (x *c17FineRun) hook(label string) {
	t := x.cur
	if t == nil {
		return
	}
	x.r.Count("fine-hook", label)
	x.noteNodes(t)
	if t.stop != label {
		return
	}
	t.parked = label
	x.yield <- struct{}{}
	<-t.resume
}

// noteNodes: between two reports of a thread at most one of its steps changes nodes.peersList, so what is new in the
// list now was appended by that step, in this order.
func (x *c17FineRun) noteNodes(t *c17FThread) {
	now := x.nodesList()
	seen := map[peer.ID]bool{}
	for _, id := range t.snap {
		seen[id] = true
	}
	n := 0
	for _, id := range now {
		if !seen[id] {
			t.order = append(t.order, c17PeerIdx(id))
			n++
		}
	}
	if n > 0 {
		t.adds++
	}
	t.snap = now
}

func c17NewFineRun(t *testing.T, r *zv.Run, seq c17FSeq) *c17FineRun {
	x := &c17FineRun{t: t, fseq: seq, yield: make(chan struct{}), hot: -1}
	c17FineCur = x
	x.c17MgrRun = c17NewMgrRunWith(t, r, c17MSeq{Kind: "mgr-seq", Enable: seq.Enable, NP: seq.NP, NH: seq.NH},
		func(ds datastore.Datastore) datastore.Datastore { return c17HookDS{ds} },
		func(h host.Host) host.Host { return c17HookHost{h} })
	return x
}

func (x *c17FineRun) fviolation(sig, desc string) {
	rep := x.fseq
	rep.Ops = append([]c17FOp{}, x.fexec...)
	x.r.Violation(sig, desc, rep)
	x.aborted = true
}

func (x *c17FineRun) schedule() string {
	var b strings.Builder
	for _, op := range x.fexec {
		switch op.Op {
		case "spawn":
			c := op.Call
			fmt.Fprintf(&b, " T%d:=%s(", op.T, c.Op)
			switch c.Op {
			case "validate":
				fmt.Fprintf(&b, "p%d,h%d@%d", c.P, c.H, c.Height)
			case "header", "peer":
				fmt.Fprintf(&b, "h%d@%d", c.H, c.Height)
			case "done":
				fmt.Fprintf(&b, "#%d,%s", c.Pick, c.Res)
			case "update":
				fmt.Fprintf(&b, "p%d,%v", c.P, c.Added)
			case "disconnect":
				fmt.Fprintf(&b, "p%d", c.P)
			}
			b.WriteString(");")
		case "run":
			fmt.Fprintf(&b, " T%d->end;", op.T)
		case "runto":
			fmt.Fprintf(&b, " T%d->%s;", op.T, op.L)
		case "age":
			fmt.Fprintf(&b, " age(h%d);", op.H)
		case "tick":
			fmt.Fprintf(&b, " tick(%d);", op.D)
		}
	}
	return b.String()
}

// ---- threads
func (x *c17FineRun) spawn(op c17MOp) *c17FThread {
	m := x.m
	t := &c17FThread{id: len(x.threads), call: op, resume: make(chan struct{}), done: make(chan struct{}), out: "ONone",
		blockedAtStart: map[int]bool{}}
	for i, b := range x.blocked {
		if b {
			t.blockedAtStart[i] = true
		}
	}
	ctx := context.Background()
	switch op.Op {
	case "validate":
		if op.P != x.seq.NP {
			if x.announced[op.P] == nil {
				x.announced[op.P] = map[int]bool{}
			}
			x.announced[op.P][op.H] = true
		}
		t.body = func() {
			res := m.Validate(ctx, x.peerID(op.P), shrexsub.Notification{DataHash: c17Hash(op.H), Height: uint64(op.Height)})
			switch res {
			case pubsub.ValidationAccept:
				t.out = "OV VAccept"
			case pubsub.ValidationReject:
				t.out = "OV VReject"
			default:
				t.out = "OV VIgnore"
			}
		}
	case "header":
		x.confirmed[op.H] = true
		x.headerBusy = true
		t.body = func() {
			x.feedHeader(&header.ExtendedHeader{RawHeader: header.RawHeader{Height: int64(op.Height), DataHash: []byte(c17Hash(op.H))}})
		}
	case "peer":
		x.confirmed[op.H] = true
		t.body = func() {
			cctx, cancel := context.WithCancel(ctx)
			cancel() // nothing available => return at once instead of waiting
			id, done, err := m.Peer(cctx, c17Hash(op.H), uint64(op.Height))
			x.quiesce()
			if err != nil {
				t.out = "OP PWait"
				return
			}
			src := "SDiscovered"
			if t.src == string(sourceShrexSub) {
				src = "SShrexSub"
			}
			i := c17PeerIdx(id)
			t.out = fmt.Sprintf("OP (PRes %s %s)", zv.N(uint64(i)), src)
			t.got = &c17Outstanding{h: op.H, p: i, src: src, done: done}
		}
	case "done":
		o := x.todo[op.Pick%len(x.todo)]
		t.target = &o
		var res result = ResultNoop
		switch op.Res {
		case "cooldown":
			res = ResultCooldownPeer
		case "blacklist":
			res = ResultBlacklistPeer
			x.hot = o.p
			x.blacklisting = true
		}
		t.body = func() { o.done(res) }
	case "update":
		if op.Added {
			x.discovered[op.P] = true
		}
		t.body = func() { m.UpdateNodePool(x.peerID(op.P), op.Added) }
	case "disconnect":
		x.discBusy = true
		t.body = func() { x.feedDisconnect(x.peerID(op.P)) }
	case "gc":
		t.body = func() {
			bl := m.cleanUp()
			t.gcOrder = make([]int, len(bl))
			for i, id := range bl {
				t.gcOrder[i] = c17PeerIdx(id)
			}
			if len(bl) > 0 {
				x.hot = t.gcOrder[0] // smallest index: the choice must not depend on Go's map iteration order
				for _, i := range t.gcOrder {
					x.hot = min(x.hot, i)
				}
				x.blacklisting = true
				m.blacklistPeers(reasonInvalidHash, bl...)
			}
		}
	}
	x.threads = append(x.threads, t)
	x.r.Count("fine-call", op.Op)
	x.hev = append(x.hev, func() string { return fmt.Sprintf("HSpawn %s %s", zv.Nat(t.id), x.callTerm(t)) })
	return t
}

func (x *c17FineRun) callTerm(t *c17FThread) string {
	op := t.call
	n := func(i int) string { return zv.N(uint64(i)) }
	switch op.Op {
	case "validate":
		return zv.App("CValidate", n(op.P), n(op.H), n(op.Height))
	case "header":
		return zv.App("CHeader", n(op.H), n(op.Height), c17IntsTerm(t.order))
	case "peer":
		return zv.App("CPeer", n(op.H), n(op.Height), c17IntsTerm(t.order))
	case "done":
		rs := map[string]string{"cooldown": "DCooldown", "blacklist": "DBlacklist"}[op.Res]
		if rs == "" {
			rs = "DNoop"
		}
		return zv.App("CDone", n(t.target.h), n(t.target.p), t.target.src, rs)
	case "update":
		return zv.App("CUpdate", n(op.P), zv.Bool(op.Added))
	case "disconnect":
		return zv.App("CDisconnect", n(op.P))
	}
	return zv.App("CGC", c17IntsTerm(t.gcOrder))
}

// segment lets thread t run (alone) until it is about to execute a step labelled `stop`, or returns.
func (x *c17FineRun) segment(t *c17FThread, stop string) {
	if t.finished {
		return
	}
	q := &x.m.nodes.cooldown.Mutex
	wasGated := t.gated
	gate := stop == "LNodesQ" && !wasGated
	for _, u := range x.threads {
		if u != t && u.started && !u.finished {
			u.overlapped = true
			x.interleaved = true
		}
	}
	t.stop, t.parked = stop, ""
	t.snap = x.nodesList()
	x.cur = t
	switch {
	case wasGated:
		t.gated, x.gateBusy = false, false
		q.Unlock()
	case !t.started:
		if gate {
			q.Lock()
		}
		t.started = true
		go func() {
			defer close(t.done)
			t.panicked = zv.Recover(t.body)
		}()
	default:
		if gate {
			q.Lock()
		}
		t.resume <- struct{}{}
	}
	watchdog := time.NewTimer(c17Watchdog)
	defer watchdog.Stop()
	hung, inverted := false, false
	if gate {
	poll:
		for {
			select {
			case <-t.done:
				t.finished = true
				q.Unlock()
				break poll
			case <-watchdog.C:
				hung = true
				q.Unlock()
				break poll
			default:
			}
			if c17MutexWaiters(q) > 0 {
				if !x.m.nodes.m.TryRLock() {
					// the call sleeps on the queue mutex WITH pool.m held: the opposite of the order the cool-down timer uses
					// (queue mutex, then pool.m). Let it go on; the finding is reported below.
					inverted, gate = true, false
					q.Unlock()
					break poll
				}
				x.m.nodes.m.RUnlock()
				t.gated, t.parked, x.gateBusy = true, "LNodesQ", true
				x.r.Count("fine-hook", "LNodesQ")
				break poll
			}
			time.Sleep(10 * time.Microsecond)
		}
	}
	if !gate && !t.finished && !hung {
		select {
		case <-x.yield:
		case <-t.done:
			t.finished = true
		case <-watchdog.C:
			hung = true
		}
	}
	x.cur = nil
	if inverted {
		x.fviolation("deadlock-lock-cycle-pool.m<->timedQueue.mu", fmt.Sprintf("%s takes the general pool's queue mutex while it holds pool.m; the cool-down timer takes them the other way round (queue mutex, then pool.m in afterCooldown): the two deadlock when they meet; schedule:%s", t.call.Op, x.schedule()))
	}
	if hung {
		c17WatchdogHits++
		x.unstable = true
		x.fviolation("manager-call-hangs:"+t.call.Op, fmt.Sprintf("%s did not return and reached no parking point within %v; schedule:%s", t.call.Op, c17Watchdog, x.schedule()))
		return
	}
	x.noteNodes(t)
	if t.parked != "" {
		x.r.Count("fine-park", t.parked)
	} else if stop != "" && x.scripted {
		x.missed++
	}
	if t.finished {
		x.complete(t)
	}
	x.injectClocks()
	x.observe()
}

func (x *c17FineRun) complete(t *c17FThread) {
	if t.reported {
		return
	}
	t.reported = true
	if t.panicked != "" {
		x.unstable = true
		x.fviolation("manager-panic:"+t.call.Op, fmt.Sprintf("%s panicked: %s; schedule:%s", t.call.Op, t.panicked, x.schedule()))
		return
	}
	switch t.call.Op {
	case "header":
		x.headerBusy = false
	case "disconnect":
		x.discBusy = false
	case "peer":
		if t.got == nil {
			x.r.Count("fine-peer", "wait")
			break
		}
		x.r.Count("fine-peer", t.got.src)
		x.todo = append(x.todo, *t.got)
		if len(x.todo) > 6 {
			x.todo = x.todo[1:]
		}
		if t.blockedAtStart[t.got.p] {
			x.fviolation("manager-blacklisted-offered:mid-call",
				fmt.Sprintf("Peer() returned %s (from %s) although that peer was blacklisted before this Peer call began; schedule:%s",
					string(c17Peer(t.got.p)), t.got.src, x.schedule()))
		}
		if t.got.src == "SDiscovered" && !x.legit(t.got.p) {
			x.fviolation("manager-unvalidated-promoted:mid-call", fmt.Sprintf("Peer() returned %s from the general pool although no discovery add and no announcement of a confirmed hash for it has begun; schedule:%s", string(c17Peer(t.got.p)), x.schedule()))
		}
	}
	if t.adds > 1 && (t.call.Op == "header" || t.call.Op == "peer") {
		// two promotions by one call (its pool was collected and re-created meanwhile): the two map walks need not agree
		x.unstable = true
		x.r.Count("harness", "fine-two-promotions")
	}
}

func (x *c17FineRun) observe() {
	if x.aborted {
		return
	}
	for i := 0; i < x.seq.NP; i++ {
		id := c17Peer(i)
		if x.m.isBlacklistedPeer(id) {
			x.blocked[i] = true
		}
		if x.m.nodes.has(id) && !x.legit(i) {
			x.fviolation("manager-unvalidated-promoted:mid-call", fmt.Sprintf("%s is in the general pool although no discovery add and no announcement of a confirmed hash for it has begun; schedule:%s", string(id), x.schedule()))
			return
		}
	}
	if msg := c17PoolInvariants(x.m.nodes); msg != "" {
		x.fviolation("pool-bookkeeping", "general pool: "+msg+"; schedule:"+x.schedule())
	}
}

// exec runs one schedule step (false: the history ended with a finding)
func (x *c17FineRun) exec(op c17FOp) bool {
	if x.aborted {
		return false
	}
	switch op.Op {
	case "spawn":
		c := *op.Call
		if op.T != len(x.threads) || (c.Op == "done" && len(x.todo) == 0) || (c.Op == "header" && x.headerBusy) ||
			(c.Op == "disconnect" && x.discBusy) {
			return true
		}
		x.fexec = append(x.fexec, op)
		x.spawn(c)
	case "run", "runto":
		if op.T < 0 || op.T >= len(x.threads) || x.threads[op.T].finished {
			return true
		}
		t := x.threads[op.T]
		if x.gateBusy && !t.gated && !c17GateFree(t.call) {
			return true
		}
		l := ""
		if op.Op == "runto" {
			l = op.L
			if l == "LNodesQ" && (x.gateBusy || t.gated) {
				return true
			}
		}
		x.fexec = append(x.fexec, op)
		x.segment(t, l)
		if l == "" {
			x.hev = append(x.hev, func() string { return fmt.Sprintf("HRun %s", zv.Nat(t.id)) })
		} else {
			x.hev = append(x.hev, func() string { return fmt.Sprintf("HRunTo %s %s", zv.Nat(t.id), l) })
		}
	case "age":
		x.fexec = append(x.fexec, op)
		x.m.lock.Lock()
		if sp := x.m.pools[c17Hash(op.H).String()]; sp != nil {
			sp.createdAt = time.Now().Add(-time.Hour)
		}
		x.m.lock.Unlock()
		x.hev = append(x.hev, func() string { return "HAge " + zv.N(uint64(op.H)) })
	case "tick":
		if x.gateBusy {
			return true
		}
		x.fexec = append(x.fexec, op)
		x.mock.Add(time.Duration(op.D) * c17Unit)
		deadline := time.Now().Add(c17Watchdog)
		for !x.queuesQuiet() {
			if time.Now().After(deadline) {
				c17WatchdogHits++
				x.fviolation("pool-cooldown-not-released", "an expired cool-down entry of a manager pool was not released")
				break
			}
			time.Sleep(20 * time.Microsecond)
		}
		x.quiesce()
		x.hev = append(x.hev, func() string { return "HTick " + zv.N(uint64(op.D)) })
		x.observe()
	}
	return !x.aborted
}

// drain lets every call in progress return (the one parked on the queue mutex first: others may need that mutex)
func (x *c17FineRun) drain(rng *zv.Rand) {
	for !x.aborted {
		var live []*c17FThread
		for _, t := range x.threads {
			if !t.finished && t.gated {
				live = []*c17FThread{t}
				break
			}
			if !t.finished {
				live = append(live, t)
			}
		}
		if len(live) == 0 {
			return
		}
		t := live[0]
		if rng != nil {
			t = live[rng.Intn(len(live))]
		}
		x.exec(c17FOp{Op: "run", T: t.id})
	}
}

func (x *c17FineRun) abandon() {
	// a history that ended with a finding: let parked calls go so that their goroutines end
	x.cur = nil
	if x.gateBusy {
		x.gateBusy = false
		x.m.nodes.cooldown.Mutex.Unlock()
	}
	for _, t := range x.threads {
		if t.started && !t.finished && !t.gated && t.parked != "" {
			select {
			case t.resume <- struct{}{}:
			case <-time.After(time.Second):
			}
		}
	}
	for _, t := range x.threads {
		if t.started && !t.finished {
			select {
			case <-t.done:
			case <-time.After(time.Second):
			}
		}
	}
}

func (x *c17FineRun) finishFine(gs *c17Groups, idx int) {
	c17FineCur = nil
	if x.unstable || x.aborted {
		x.abandon()
		if !x.unstable {
			x.close()
		}
		return
	}
	final := x.obs()
	x.close()
	events := make([]string, len(x.hev))
	for i, f := range x.hev {
		events[i] = f()
	}
	outs := make([]string, len(x.threads))
	for i, t := range x.threads {
		outs[i] = t.out
	}
	term := zv.App("mkFcase", zv.Bool(x.fseq.Enable), zv.N(uint64(x.fseq.NP)), "10", zv.Nat(x.fseq.NP), zv.Nat(x.fseq.NH),
		zv.List(events), zv.List(outs), final)
	key := ""
	if x.interleaved && (x.blacklisting || !x.fseq.Enable) {
		key = "nt"
	}
	if x.interleaved {
		x.r.Count("fine-seq", "interleaved")
	} else {
		x.r.Count("fine-seq", "sequential")
	}
	rep := x.fseq
	rep.Ops = x.fexec
	gs.get(2*(idx%2)).Case(term, c17FCase{Seq: rep, Events: events, Outs: outs, Final: final}, key) // two case files
}

// ---- schedules
func c17FineScripted() []c17FSeq {
	v := func(p, h, height int) *c17MOp { return &c17MOp{Op: "validate", P: p, H: h, Height: height} }
	hd := func(h, height int) *c17MOp { return &c17MOp{Op: "header", H: h, Height: height} }
	pr := func(h, height int) *c17MOp { return &c17MOp{Op: "peer", H: h, Height: height} }
	dn := func(pick int, res string) *c17MOp { return &c17MOp{Op: "done", Pick: pick, Res: res} }
	up := func(p int, added bool) *c17MOp { return &c17MOp{Op: "update", P: p, Added: added} }
	dc := func(p int) *c17MOp { return &c17MOp{Op: "disconnect", P: p} }
	gc := func() *c17MOp { return &c17MOp{Op: "gc"} }
	type step struct {
		call *c17MOp
		to   string // "" = run to the end; "-" = spawn only
		res  int    // >=0: resume that thread instead of spawning (to label `to` or to the end)
		age  int
	}
	call := func(c *c17MOp) step { return step{call: c, res: -1, age: -1} }
	park := func(c *c17MOp, l string) step { return step{call: c, to: l, res: -1, age: -1} }
	resume := func(t int, l string) step { return step{res: t, to: l, age: -1} }
	age := func(h int) step { return step{res: -1, age: h} }
	mk := func(enable bool, steps ...step) c17FSeq {
		s := c17FSeq{Kind: "mgr-fine", Enable: enable, NP: 5, NH: 4}
		n := 0
		for _, st := range steps {
			switch {
			case st.age >= 0:
				s.Ops = append(s.Ops, c17FOp{Op: "age", H: st.age})
			case st.res >= 0:
				if st.to == "" {
					s.Ops = append(s.Ops, c17FOp{Op: "run", T: st.res})
				} else {
					s.Ops = append(s.Ops, c17FOp{Op: "runto", T: st.res, L: st.to})
				}
			default:
				s.Ops = append(s.Ops, c17FOp{Op: "spawn", T: n, Call: st.call})
				if st.to == "" {
					s.Ops = append(s.Ops, c17FOp{Op: "run", T: n})
				} else {
					s.Ops = append(s.Ops, c17FOp{Op: "runto", T: n, L: st.to})
				}
				n++
			}
		}
		return s
	}
	// p0 gets blacklisted by the GC: it announced h3, which is never confirmed (h2 sets the initial height)
	stale := []step{call(hd(2, 5)), call(v(0, 3, 7)), age(3)}
	with := func(pre []step, rest ...step) []step { return append(append([]step{}, pre...), rest...) }
	return []c17FSeq{
		// discovery re-adds the peer between nodes.remove and BlockPeer of its blacklisting (request result): it ends up
		// blacklisted AND in the general pool; its own hash pool must not hand it out
		mk(true, call(v(0, 0, 6)), call(pr(0, 6)), park(dn(0, "blacklist"), "LBlock"), call(up(0, true)), resume(2, ""),
			call(pr(0, 6)), call(pr(0, 6)), call(pr(1, 7))),
		// an announcement that has passed its blacklist test lands after the blacklisting
		mk(true, call(hd(0, 6)), call(up(0, true)), call(pr(1, 7)), park(v(0, 0, 6), "LValidateAdd"), call(dn(0, "blacklist")),
			resume(3, ""), call(pr(0, 6)), call(pr(0, 6)), call(pr(1, 7))),
		// the same gap in the GC's blacklisting of two peers, every point of its loop
		mk(true, call(hd(2, 5)), call(hd(0, 6)), call(v(0, 1, 7)), call(v(1, 1, 7)), call(v(0, 0, 6)), call(v(1, 0, 6)), age(1),
			park(gc(), "LBlacklisting"), call(up(0, true)), resume(6, "LBlock"), call(up(0, true)), call(up(1, true)), resume(6, "LClose"),
			call(up(0, true)), call(up(1, true)), resume(6, "LBlock"), call(v(0, 0, 6)), call(v(1, 0, 6)), call(up(0, true)), call(up(1, true)),
			resume(6, ""), call(pr(0, 6)), call(pr(0, 6)), call(pr(3, 8))),
		// the benign overlap: Peer has made its last test, then the peer is blacklisted, then Peer returns it; the NEXT call does not
		mk(true, with(stale, call(v(0, 0, 6)), park(pr(0, 6), "LGotPeer"), call(gc()), resume(3, ""), call(pr(0, 6)), call(pr(1, 7)))...),
		// discovery add parked between its blacklist test and nodes.add
		mk(true, with(stale, park(up(0, true), "LNodesQ"), call(gc()), resume(2, ""), call(pr(1, 7)), call(pr(1, 7)))...),
		// validatedPool parked after marking the pool, and after its blacklist tests
		mk(true, with(stale, call(v(0, 0, 6)), call(v(1, 0, 6)), park(hd(0, 6), "LMarked"), call(gc()), resume(4, ""), call(pr(1, 7)), call(pr(1, 7)))...),
		mk(true, with(stale, call(v(0, 0, 6)), call(v(1, 0, 6)), park(hd(0, 6), "LNodesQ"), call(gc()), resume(4, ""), call(pr(1, 7)), call(pr(1, 7)),
			call(pr(0, 6)), call(pr(0, 6)))...),
		// Validate parked before nodes.add
		mk(true, with(stale, call(hd(0, 6)), park(v(0, 0, 6), "LNodesQ"), call(gc()), resume(3, ""), call(pr(0, 6)), call(pr(1, 7)))...),
		// Peer parked before it drops an unreachable peer from the hash pool / a blacklisted one from the general pool
		mk(false, call(hd(0, 6)), call(v(0, 0, 6)), call(v(1, 0, 6)), call(dc(0)), park(pr(0, 6), "LRemoveOutdated"), call(up(0, true)), resume(4, ""),
			call(pr(0, 6)), call(pr(0, 6))),
		mk(true, with(stale, park(up(0, true), "LNodesQ"), call(gc()), resume(2, ""), call(up(1, true)), park(pr(1, 7), "LRemoveBlack"),
			call(up(0, false)), resume(5, ""), call(pr(1, 7)))...),
		// disconnect parked between has and remove
		mk(false, call(up(0, true)), park(dc(0), "LDisconnect"), call(up(0, false)), call(up(0, true)), resume(1, ""), call(pr(1, 7))),
		// two calls in flight: a blacklisting parked before BlockPeer, an announcement parked before p.add
		mk(true, call(hd(0, 6)), call(v(0, 0, 6)), call(pr(0, 6)), park(dn(0, "blacklist"), "LBlock"), park(v(0, 0, 6), "LValidateAdd"), resume(3, ""),
			resume(4, ""), call(pr(0, 6)), call(pr(1, 7))),
		// cool-down of a general-pool peer parked before the queue mutex while it is being blacklisted
		mk(true, call(up(0, true)), call(up(1, true)), call(pr(1, 7)), call(pr(1, 7)), park(dn(0, "cooldown"), "LNodesQ"), call(dn(0, "blacklist")),
			resume(4, ""), call(pr(1, 7)), call(pr(1, 7))),
	}
}

// pick a peer, biased to the one most recently involved in a blacklisting
func (x *c17FineRun) pickPeer(rng *zv.Rand) int {
	if x.hot >= 0 && x.hot < x.seq.NP && rng.Chance(55) {
		return x.hot
	}
	return rng.Intn(x.seq.NP)
}

func (x *c17FineRun) genCall(rng *zv.Rand, heights []int) c17MOp {
	op := x.genOp(rng, heights)
	switch op.Op {
	case "validate":
		if op.P != x.seq.NP {
			op.P = x.pickPeer(rng)
		}
	case "update", "disconnect":
		op.P = x.pickPeer(rng)
	}
	return op
}

func (x *c17FineRun) parkedThreads() []*c17FThread {
	var ps []*c17FThread
	for _, t := range x.threads {
		if t.started && !t.finished {
			ps = append(ps, t)
		}
	}
	return ps
}

// one random scheduler decision
func (x *c17FineRun) randomStep(rng *zv.Rand, heights []int) {
	parked := x.parkedThreads()
	if len(parked) > 0 && (len(parked) >= 3 || rng.Chance(30)) {
		// resume a call in progress: to its end, or to a later parking point
		var ok []*c17FThread
		for _, t := range parked {
			if !x.gateBusy || t.gated || c17GateFree(t.call) {
				ok = append(ok, t)
			}
		}
		if len(ok) > 0 {
			t := ok[rng.Intn(len(ok))]
			if ls := c17CallLabels(t.call); len(ls) > 0 && rng.Chance(35) {
				l := ls[rng.Intn(len(ls))]
				if l != "LNodesQ" || (!x.gateBusy && !t.gated) {
					x.exec(c17FOp{Op: "runto", T: t.id, L: l})
					return
				}
			}
			x.exec(c17FOp{Op: "run", T: t.id})
			return
		}
	}
	for try := 0; try < 8; try++ {
		op := x.genCall(rng, heights)
		switch op.Op {
		case "age":
			x.exec(c17FOp{Op: "age", H: op.H})
			return
		case "tick":
			if x.gateBusy {
				continue
			}
			x.exec(c17FOp{Op: "tick", D: op.D})
			return
		}
		if (op.Op == "header" && x.headerBusy) || (op.Op == "disconnect" && x.discBusy) || (op.Op == "done" && len(x.todo) == 0) ||
			(x.gateBusy && !c17GateFree(op)) {
			continue
		}
		id := len(x.threads)
		x.exec(c17FOp{Op: "spawn", T: id, Call: &op})
		if ls := c17CallLabels(op); len(ls) > 0 && rng.Chance(50) {
			l := ls[rng.Intn(len(ls))]
			if l != "LNodesQ" || !x.gateBusy {
				x.exec(c17FOp{Op: "runto", T: id, L: l})
				return
			}
		}
		x.exec(c17FOp{Op: "run", T: id})
		return
	}
}

func c17InstallFineLogger() func() {
	old := log
	log = &logging.ZapEventLogger{SugaredLogger: *zap.New(c17Core{}).Sugar()}
	return func() { log = old }
}

func c17Fine(t *testing.T, r *zv.Run) {
	restore := c17InstallFineLogger()
	defer restore()
	gs := &c17Groups{r: r, name: "fine", header: c17FineHeader, typ: "fcase", f: "fmismatches"}
	rng := r.Rand().Fork(7)

	var replay c17FSeq
	if r.ReplayInput(&replay) && replay.Kind == "mgr-fine" {
		x := c17NewFineRun(t, r, replay)
		for _, op := range replay.Ops {
			if !x.exec(op) {
				break
			}
		}
		x.drain(nil)
		x.finishFine(gs, 0)
		return
	}
	missed := 0
	for i, seq := range c17FineScripted() {
		x := c17NewFineRun(t, r, seq)
		x.scripted = true
		for _, op := range seq.Ops {
			if !x.exec(op) {
				break
			}
		}
		x.drain(nil)
		if !x.aborted && !x.unstable {
			missed += x.missed
		}
		x.finishFine(gs, i)
		r.Count("fine-seq", "scripted")
	}
	if missed > 0 {
		r.Count("harness", fmt.Sprintf("fine-scripted-park-missed-%d", missed))
		t.Errorf("C17 lock-granularity harness: %d scripted parking points were not reached (log messages / call structure of manager.go changed?)", missed)
	}
	n := r.N(220, 4000)
	for i := 0; i < n && c17WatchdogHits < 3; i++ {
		cr := rng.Fork(uint64(i))
		seq := c17FSeq{Kind: "mgr-fine", Enable: cr.Chance(85), NP: 4, NH: 4}
		x := c17NewFineRun(t, r, seq)
		heights := make([]int, seq.NH)
		for j := range heights {
			heights[j] = 1 + cr.Intn(40)
		}
		sort.Ints(heights)
		if cr.Chance(70) { // all hashes inside one store window
			for j := range heights {
				heights[j] = 20 + j
			}
		}
		ln := 8 + cr.Intn(26)
		for j := 0; j < ln && !x.aborted; j++ {
			x.randomStep(cr, heights)
		}
		x.drain(cr)
		x.finishFine(gs, i)
		r.Count("fine-seq", "random")
	}
}

//go:build verif

package peers

// C17 correspondence + oracle harness, part 4: the cool-down timer of the pool at LOCK GRANULARITY
// (see /verif/coq/theories/Peers/PoolFine.v).
//
// One expiry is two critical sections of the timer goroutine: the scan in timedQueue.releaseUnsafe under the queue mutex
// and the callback onPop = pool.afterCooldown under pool.m.  The "window" operation makes the state between them
// reachable on the REAL pool:
//
//   - the queue's onPop field is wrapped (in-package) so that callback number `Park` of the expiry parks on a channel
//     BEFORE it enters pool.afterCooldown;
//   - the mock clock is moved exactly to the head item's deadline, so exactly one releaseExpired runs;
//   - while the callback is parked a worker goroutine runs the pool calls of `Work` in order (remove / add /
//     putOnCooldown / tryGet on the expiring peer and on others).  On the code under test the timer goroutine still
//     holds the queue mutex: calls that take pool.m only return, the first add / putOnCooldown queues up behind the queue
//     mutex.  The scheduler waits for "worker returned" or "a waiter is registered on the queue mutex" (the waiter
//     count of the mutex; no sleep decides anything), notes how many calls returned, lets the callback go, and joins;
//   - the schedule is emitted for CN.Peers.PoolFine.qmismatches as QLock / QPop / [calls that returned] / QCall / ... /
//     QPop / [the remaining calls] (L2), and the pool run's oracle "offered while a cool-down younger than ttl exists"
//     judges every later tryGet (L3, sig pool-cooldown-cut-short:expiry-window), plus directly after the window: no peer
//     with a cool-down younger than ttl has status active.

import (
	"fmt"
	"sync/atomic"
	"testing"
	"time"

	"github.com/libp2p/go-libp2p/core/peer"

	zv "github.com/celestiaorg/celestia-node/zzverif"
)

const c17PoolFineHeader = `From Coq Require Import List ZArith NArith.
From CN Require Import Peers.Pool Peers.PoolFine.
Import ListNotations.
Open Scope N_scope.
`

type c17PFRun struct {
	*c17PoolRun
	qev     []string
	parks   int // windows whose callback was parked with at least one call run meanwhile
	blocked int // calls that queued up behind the queue mutex while the callback was parked
	wedged  bool
}

func c17NewPFRun(r *zv.Run, seq c17Seq) *c17PFRun {
	return &c17PFRun{c17PoolRun: c17NewPoolRun(r, seq)}
}

func c17QE(evs []string) []string {
	out := make([]string, len(evs))
	for i, e := range evs {
		out[i] = "QE (" + e + ")"
	}
	return out
}

// step applies one operation of a pool-fine sequence (false: the history ended with a finding)
func (x *c17PFRun) step(op c17Op) bool {
	if x.aborted {
		return false
	}
	switch op.Op {
	case "window":
		x.executed = append(x.executed, op)
		if pn := zv.Recover(func() { x.window(op) }); pn != "" {
			x.violation("pool-panic:window", "the expiry window panicked: "+pn)
			x.unstable = true
		}
		return !x.aborted
	case "wait", "cancel":
		return true // the waiters of next() are the subject of the sequential pool sequences
	case "tick":
		e0 := len(x.events)
		before := x.p.cooldown.len()
		ok := x.apply(op)
		x.events = x.events[:e0]
		released := before - x.p.cooldown.len()
		// the same expiry, critical section by critical section (nothing runs in between here)
		x.qev = append(x.qev, "QE (EAdvance "+zv.N(uint64(op.D))+")", "QLock")
		for i := 0; i < released; i++ {
			x.qev = append(x.qev, "QPop", "QCall")
		}
		x.qev = append(x.qev, "QPop")
		return ok
	default:
		e0 := len(x.events)
		ok := x.apply(op)
		x.qev = append(x.qev, c17QE(x.events[e0:])...)
		x.events = x.events[:e0]
		return ok
	}
}

func (x *c17PFRun) window(op c17Op) {
	p, q := x.p, x.p.cooldown
	q.Lock()
	if len(q.items) == 0 {
		q.Unlock()
		x.r.Count("poolfine-window", "queue-empty")
		return
	}
	d := q.ttl - x.mock.Since(q.items[0].createdAt)
	q.Unlock()
	if d < 0 {
		d = 0
	}
	x.windowed = true

	var popped []int
	parked, release := make(chan struct{}), make(chan struct{})
	abort := false
	orig := q.onPop
	q.onPop = func(id peer.ID) { // called by the timer goroutine only, one call after the other
		i := len(popped)
		popped = append(popped, c17PeerIdx(id))
		if i == op.Park {
			parked <- struct{}{}
			<-release
		}
		if abort { // set before `release` is closed: this and every later callback of the expiry is dropped
			return
		}
		orig(id)
	}
	defer func() { q.onPop = orig }()

	addDone := make(chan struct{})
	go func() {
		defer close(addDone)
		x.mock.Add(d)
	}()
	// the callback parks, or the expiry ends without reaching callback number Park
	didPark := false
	deadline := time.Now().Add(c17Watchdog)
wait:
	for {
		select {
		case <-parked:
			didPark = true
			break wait
		default:
		}
		select {
		case <-addDone: // the timer goroutine has been started by now
			if _, timers := c17Transient(); timers == 0 {
				select {
				case <-parked:
					didPark = true
				default:
				}
				break wait
			}
		default:
		}
		if time.Now().After(deadline) {
			c17WatchdogHits++
			x.unstable = true
			x.violation("pool-cooldown-not-released", "the cool-down timer did not run its release within the watchdog time")
			return
		}
		time.Sleep(20 * time.Microsecond)
	}

	// while the callback is parked: the worker's calls, in order
	recs := make([][]string, len(op.Work))
	var returned atomic.Int32
	workerDone := make(chan struct{})
	during := 0
	if didPark {
		go func() {
			defer close(workerDone)
			for i, w := range op.Work {
				e0 := len(x.events)
				if pn := zv.Recover(func() { x.apply1(w) }); pn != "" {
					x.violation("pool-panic:"+w.Op, fmt.Sprintf("%s panicked while an expiry callback was pending: %s", w.Op, pn))
				}
				recs[i] = append([]string{}, x.events[e0:]...)
				returned.Add(1)
			}
		}()
		watchdog := time.NewTimer(c17Watchdog)
		defer watchdog.Stop()
	blockedOrDone:
		for {
			select {
			case <-workerDone:
				break blockedOrDone
			case <-watchdog.C:
				c17WatchdogHits++
				x.unstable, x.wedged = true, true
				x.violation("pool-call-hangs:expiry-window", "a pool call neither returned nor queued up behind the queue mutex while an expiry callback was pending")
				return
			default:
			}
			if c17MutexWaiters(&q.Mutex) > 0 {
				x.blocked++
				if !p.m.TryLock() {
					// the call sleeps on the queue mutex WITH pool.m held, the timer goroutine holds the queue mutex and is about
					// to take pool.m in afterCooldown: this is the deadlock, reached deterministically. The callback is dropped so
					// that the goroutines end.
					x.violation("deadlock-lock-cycle-pool.m<->timedQueue.mu", fmt.Sprintf("%s holds pool.m and waits for the queue mutex while the cool-down timer holds the queue mutex and is about to take pool.m in afterCooldown", op.Work[returned.Load()].Op))
					x.unstable, x.wedged = true, true // one deterministic replay of the cycle is enough: the phase ends here
					abort = true
					close(release)
					<-workerDone
					<-addDone
					c17Quiesce(x.r, 0, &x.unstable)
					return
				}
				p.m.Unlock()
				break blockedOrDone
			}
			time.Sleep(10 * time.Microsecond)
		}
		during = int(returned.Load())
		close(release)
		select {
		case <-workerDone:
		case <-time.After(c17Watchdog):
			c17WatchdogHits++
			x.unstable, x.wedged = true, true
			x.violation("pool-call-hangs:expiry-window", "a pool call did not return after the expiry callback had finished")
			return
		}
		if len(op.Work) > 0 {
			x.parks++
		}
		x.r.Count("poolfine-window", fmt.Sprintf("parked-%d-of-%d-returned-meanwhile", during, len(op.Work)))
	} else {
		x.r.Count("poolfine-window", "not-parked")
	}
	<-addDone
	x.quiesce(0)

	// ---- the schedule, for the model of the code under test
	units := uint64(d / c17Unit)
	x.qev = append(x.qev, "QE (EAdvance "+zv.N(units)+")", "QLock")
	for i := range popped {
		x.qev = append(x.qev, "QPop")
		if didPark && i == op.Park {
			for _, rec := range recs[:during] {
				x.qev = append(x.qev, c17QE(rec)...)
			}
		}
		x.qev = append(x.qev, "QCall")
	}
	x.qev = append(x.qev, "QPop")
	if didPark {
		for _, rec := range recs[during:] {
			x.qev = append(x.qev, c17QE(rec)...)
		}
	}
	x.events = x.events[:0]

	// ---- L3, directly: a peer whose cool-down is younger than ttl is not active
	if x.aborted {
		return
	}
	ttl := time.Duration(x.seq.TTL) * c17Unit
	for i, at := range x.lastCooldown {
		if age := x.now() - at; age < ttl {
			p.m.RLock()
			st, ok := p.statuses[c17Peer(i)]
			p.m.RUnlock()
			if ok && st == active {
				x.violation("pool-cooldown-cut-short:expiry-window", fmt.Sprintf("%s is active only %v after it was put on cool-down (ttl %v): the callback of an earlier, already popped cool-down item re-activated it", string(c17Peer(i)), age, ttl))
				return
			}
		}
	}
	if msg := c17PoolInvariants(p); msg != "" {
		x.violation("pool-bookkeeping", "after an expiry window: "+msg)
	}
}

func (x *c17PFRun) finishFine(gs *c17Groups, idx int) {
	if x.unstable || x.aborted {
		return
	}
	final := c17PoolObs(x.p, x.seq.NPeers)
	term := zv.App("mkQcase", zv.N(uint64(x.seq.TTL)), zv.Z(int64(x.seq.Thr)), zv.Nat(x.seq.NPeers),
		zv.List(x.qev), zv.List(x.outs), final)
	key := ""
	if x.parks > 0 {
		key = "nt"
	}
	rep := x.seq
	rep.Ops = x.executed
	gs.get(2*(idx%2)).Case(term, c17PoolCase{Seq: rep, Events: x.qev, Outs: x.outs, Final: final}, key)
}

func c17PoolFineScripted() []c17Seq {
	a := func(ps ...int) c17Op { return c17Op{Op: "add", Ps: ps} }
	rm := func(ps ...int) c17Op { return c17Op{Op: "remove", Ps: ps} }
	get := c17Op{Op: "get"}
	cd := func(p int) c17Op { return c17Op{Op: "cooldown", P: p} }
	tick := func(d int) c17Op { return c17Op{Op: "tick", D: d} }
	win := func(park int, work ...c17Op) c17Op { return c17Op{Op: "window", Park: park, Work: work} }
	mk := func(thr int, ops ...c17Op) c17Seq {
		return c17Seq{Kind: "pool-fine", TTL: 10, Thr: thr, NPeers: 4, Ops: ops}
	}
	return []c17Seq{
		// disconnect + rediscovery + a new cool-down of the peer whose cool-down is just expiring
		mk(2, a(0), get, cd(0), win(0, rm(0), a(0), cd(0)), get, tick(5), get, tick(5), get, tick(5), get),
		mk(2, a(0, 1), cd(0), win(0, rm(0), a(0), cd(0), get, get), get, get, tick(9), get, get, tick(1), get, get),
		// the other orders
		mk(2, a(0), cd(0), win(0, a(0), cd(0), rm(0), a(0)), get, tick(10), get),
		mk(2, a(0), cd(0), win(0, cd(0), rm(0), a(0), cd(0)), get, tick(10), get),
		// two items expire together, the second callback is held back
		mk(2, a(0, 1), cd(0), cd(1), win(1, rm(1), a(1), cd(1), get), get, get, tick(10), get, get),
		mk(3, a(0, 1, 2), cd(0), cd(1), win(0, rm(0), rm(1), get, a(0, 1), cd(2)), get, get, get, tick(10), get),
		// only calls that take pool.m: they all return while the callback is pending
		mk(2, a(0, 1), cd(0), win(0, rm(0), get, get), a(0), get, get),
		mk(0, a(0, 1), cd(0), win(0, rm(0), rm(1), get), a(0, 1), get, get),
		// the peer was removed while it was on cool-down
		mk(2, a(0), cd(0), rm(0), win(0, a(0), cd(0)), get, tick(10), get),
		// calls on other peers
		mk(2, a(0, 1), cd(0), win(0, cd(1), rm(1), a(1), get), get, get, tick(10), get, get),
		mk(2, a(0, 1), cd(0), tick(4), cd(1), win(0, rm(0), a(0), cd(0)), get, tick(6), get, get, tick(4), get, get),
	}
}

func (x *c17PFRun) genWindow(rng *zv.Rand) c17Op {
	n := x.seq.NPeers
	q := x.p.cooldown
	q.Lock()
	head, k := -1, 0
	if len(q.items) > 0 {
		head = c17PeerIdx(q.items[0].ID)
		for _, it := range q.items {
			if it.createdAt.Equal(q.items[0].createdAt) {
				k++
			}
		}
	}
	q.Unlock()
	op := c17Op{Op: "window"}
	if k > 1 && rng.Chance(40) {
		op.Park = rng.Intn(k)
	}
	pick := func() int {
		if head >= 0 && rng.Chance(70) {
			return head
		}
		return rng.Intn(n)
	}
	if rng.Chance(35) {
		z := pick()
		op.Work = []c17Op{{Op: "remove", Ps: []int{z}}, {Op: "add", Ps: []int{z}}, {Op: "cooldown", P: z}}
		if rng.Chance(40) {
			op.Work = append(op.Work, c17Op{Op: "get"})
		}
		return op
	}
	for i, ln := 0, 1+rng.Intn(4); i < ln; i++ {
		switch rng.Intn(5) {
		case 0:
			op.Work = append(op.Work, c17Op{Op: "remove", Ps: []int{pick()}})
		case 1:
			op.Work = append(op.Work, c17Op{Op: "add", Ps: []int{pick()}})
		case 2:
			op.Work = append(op.Work, c17Op{Op: "cooldown", P: pick()})
		default:
			op.Work = append(op.Work, c17Op{Op: "get"})
		}
	}
	return op
}

func c17PoolFine(t *testing.T, r *zv.Run) {
	gs := &c17Groups{r: r, name: "poolfine", header: c17PoolFineHeader, typ: "qcase", f: "qmismatches"}
	rng := r.Rand().Fork(9)

	var replay c17Seq
	if r.ReplayInput(&replay) && replay.Kind == "pool-fine" {
		x := c17NewPFRun(r, replay)
		for _, op := range replay.Ops {
			if !x.step(op) {
				break
			}
		}
		x.finishFine(gs, 0)
		return
	}
	wedged := false
	for i, seq := range c17PoolFineScripted() {
		x := c17NewPFRun(r, seq)
		for _, op := range seq.Ops {
			if !x.step(op) {
				break
			}
		}
		x.finishFine(gs, i)
		wedged = wedged || x.wedged
		r.Count("poolfine-seq", "scripted")
	}
	n := r.N(160, 3000)
	for i := 0; i < n && c17WatchdogHits < 3 && !wedged; i++ {
		cr := rng.Fork(uint64(i))
		seq := c17Seq{Kind: "pool-fine", TTL: 10, Thr: zv.Pick(cr, []int{2, 2, 2, 1, 3, 0}), NPeers: 3 + cr.Intn(3)}
		x := c17NewPFRun(r, seq)
		ln := 8 + cr.Intn(24)
		for j := 0; j < ln; j++ {
			var op c17Op
			if x.p.cooldown.len() > 0 && cr.Chance(30) {
				op = x.genWindow(cr)
			} else {
				op = x.genOp(cr)
				if op.Op == "wait" || op.Op == "cancel" {
					op = c17Op{Op: "get"}
				}
			}
			x.seq.Ops = append(x.seq.Ops, op)
			if !x.step(op) {
				break
			}
		}
		x.finishFine(gs, i)
		wedged = wedged || x.wedged
		r.Count("poolfine-seq", "random")
	}
}

//go:build verif

package shrex

// C09 correspondence + oracle harness (see /verif/DESIGN.md, C09).
//
// The real Server runs on a mocknet host over a real store; every incoming stream is wrapped so that the harness sees the
// accessor Close calls, the memory reservations/releases, the reset code and any panic that reaches the recovery
// middleware.  Requests are raw byte strings written to a stream (every identifier type, each field at and beyond its
// bound for the stored square, wrong lengths, zero / unknown heights, every namespace class, from>=to, random bytes); valid
// in-bounds requests additionally go through the real Client with the real container verification.
//
// Behind the server the harness can make GetByHeight fail, Size() fail, the accessor call of the ResponseReader fail or panic
// (the paths of the handler an honest store never takes).
//
// L2: request bytes + fault + observed (outcome class, opened/closed, reserved/released) vs CN.Shwap.Server (server_mismatches);
//     ResponseSize of every identifier type vs the model.
// L3: an honest reply is accepted by the client's verification and equals the stored data (raw payload and through the real
//     Client); unknown height => NOT_FOUND (raw and Client: ErrNotFound); a malformed / out-of-bounds request or one whose
//     store/accessor failed is never answered OK; accessor and memory are balanced on every path; no panic reaches the recovery
//     middleware except the injected one, which must end in a reset; no hang (watchdog on the reply and on the handler's return).
// A replay file (./check C09 --seed N --replay f) re-runs exactly one recorded request.

import (
	"bytes"
	"context"
	"encoding/hex"
	"errors"
	"fmt"
	"io"
	"sync"
	"testing"
	"time"

	"github.com/libp2p/go-libp2p/core/host"
	"github.com/libp2p/go-libp2p/core/network"
	mocknet "github.com/libp2p/go-libp2p/p2p/net/mock"

	"github.com/celestiaorg/celestia-app/v9/pkg/wrapper"
	"github.com/celestiaorg/go-libp2p-messenger/serde"
	libshare "github.com/celestiaorg/go-square/v4/share"
	"github.com/celestiaorg/rsmt2d"

	"github.com/celestiaorg/celestia-node/share"
	"github.com/celestiaorg/celestia-node/share/eds"
	"github.com/celestiaorg/celestia-node/share/shwap"
	shrexpb "github.com/celestiaorg/celestia-node/share/shwap/p2p/shrex/pb"
	"github.com/celestiaorg/celestia-node/store"
	zv "github.com/celestiaorg/celestia-node/zzverif"
)

const c09Header = `From Coq Require Import List ZArith NArith BinNat.
From CN Require Import Base.Bytes Shwap.Ids Shwap.Server.
Import ListNotations.
Open Scope Z_scope.
`

// ---------------------------------------------------------------------------------------------- squares

type c09Square struct {
	k      int
	height uint64
	q      *rsmt2d.ExtendedDataSquare
	roots  *share.AxisRoots
	acc    *eds.Rsmt2D
	ods    []libshare.Share
	runs   []c09Run
}
type c09Run struct {
	ns       libshare.Namespace
	from, to int
}

func c09V0ns(x uint64) libshare.Namespace {
	b := make([]byte, 10)
	for i := 0; i < 8; i++ {
		b[9-i] = byte(x >> (8 * i))
	}
	return libshare.MustNewV0Namespace(b)
}

func c09GenSquare(t testing.TB, rng *zv.Rand, k int, height uint64) *c09Square {
	n := k * k
	sq := &c09Square{k: k, height: height}
	left, pad := n, 0
	if k > 1 && rng.Chance(40) {
		pad = 1 + rng.Intn(k)
		left -= pad
	}
	base := uint64(9000 + rng.Intn(1000))
	pos := 0
	for i := 0; left > 0; i++ {
		c := 1 + rng.Intn(2*k)
		if i == 0 && k > 1 {
			c = k + 1 + rng.Intn(k)
		}
		if c > left {
			c = left
		}
		ns := c09V0ns(base + uint64(3*i))
		for j := 0; j < c; j++ {
			b := rng.Bytes(libshare.ShareSize)
			copy(b, ns.Bytes())
			s, err := libshare.NewShare(b)
			if err != nil {
				t.Fatal(err)
			}
			sq.ods = append(sq.ods, s)
		}
		sq.runs = append(sq.runs, c09Run{ns, pos, pos + c})
		pos += c
		left -= c
	}
	for i := 0; i < pad; i++ {
		sq.ods = append(sq.ods, libshare.TailPaddingShare())
	}
	e, err := rsmt2d.ComputeExtendedDataSquare(libshare.ToBytes(sq.ods), share.DefaultRSMT2DCodec(), wrapper.NewConstructor(uint64(k)))
	if err != nil {
		t.Fatal(err)
	}
	sq.q = e
	sq.roots, err = share.NewAxisRoots(e)
	if err != nil {
		t.Fatal(err)
	}
	sq.acc = &eds.Rsmt2D{ExtendedDataSquare: e}
	return sq
}

// ---------------------------------------------------------------------------------------------- instrumentation

type c09Counters struct {
	mu       sync.Mutex
	opened   int
	closed   int
	reserved int64
	released int64
	denied   bool
	negative bool
	resetErr int // -1 none, 0 plain Reset, else the error code
	panics   []string
	getter   int           // c09G*: which AccessorGetter the server's store delegates to for this request
	fault    int           // c09F*: what the harness makes fail behind the server for this request
	started  chan struct{} // closed when the server's handler for this request has been entered
	done     chan struct{} // closed when the server's handler for this request has returned
	once     sync.Once
}

func c09NewCounters(getter, fault int) *c09Counters {
	return &c09Counters{resetErr: -1, getter: getter, fault: fault, started: make(chan struct{}), done: make(chan struct{})}
}

// faults injected behind the real server (Coq: Server.fault)
const (
	c09FNone = iota
	c09FStore
	c09FSize
	c09FBuildErr
	c09FBuildPanic
)

var c09FaultCoq = []string{"FNone", "FStore", "FSize", "FBuildErr", "FBuildPanic"}

const c09InjectedPanic = "c09: injected accessor panic"

var errC09Injected = errors.New("c09: injected failure")

// the AccessorGetter behind the real Server (Coq: Server.getter): the store itself, the store behind store.CachedStore
// (Store.WithCache; its cache wraps the loader's error with "unable to load accessor: %w"), the store behind a decorator that
// adds context to every error with %w.  A node may put any of them in front of its store; "not found" must survive all.
const (
	c09GPlain = iota
	c09GCached
	c09GWrapping
)

var c09GetterCoq = []string{"GPlain", "GCached", "GWrapping"}

type c09WrappingGetter struct{ inner store.AccessorGetter }

func (g c09WrappingGetter) GetByHeight(ctx context.Context, h uint64) (eds.AccessorStreamer, error) {
	acc, err := g.inner.GetByHeight(ctx, h)
	if err != nil {
		return nil, fmt.Errorf("c09 getter: height %d: %w", h, err)
	}
	return acc, nil
}

func (g c09WrappingGetter) HasByHeight(ctx context.Context, h uint64) (bool, error) {
	ok, err := g.inner.HasByHeight(ctx, h)
	if err != nil {
		return false, fmt.Errorf("c09 getter: height %d: %w", h, err)
	}
	return ok, nil
}
func (c *c09Counters) finish() { c.once.Do(func() { close(c.done) }) }

type c09Store struct {
	inner  store.AccessorGetter   // what the server is given by default: the *store.Store
	others []store.AccessorGetter // indexed by c09G*
	mu     sync.Mutex
	c     *c09Counters
}

func (s *c09Store) set(c *c09Counters) { s.mu.Lock(); s.c = c; s.mu.Unlock() }
func (s *c09Store) get() *c09Counters  { s.mu.Lock(); defer s.mu.Unlock(); return s.c }

type c09Acc struct {
	eds.AccessorStreamer
	c *c09Counters
}

func (a *c09Acc) Size(ctx context.Context) (int, error) {
	if a.c.fault == c09FSize {
		return 0, errC09Injected
	}
	return a.AccessorStreamer.Size(ctx)
}

// build is the first accessor call of every ResponseReader: the injected failure / panic happens there.
func (a *c09Acc) build() error {
	switch a.c.fault {
	case c09FBuildErr:
		return errC09Injected
	case c09FBuildPanic:
		panic(c09InjectedPanic)
	}
	return nil
}

func (a *c09Acc) Reader() (io.Reader, error) {
	if err := a.build(); err != nil {
		return nil, err
	}
	return a.AccessorStreamer.Reader()
}

func (a *c09Acc) AxisRoots(ctx context.Context) (*share.AxisRoots, error) {
	if err := a.build(); err != nil {
		return nil, err
	}
	return a.AccessorStreamer.AxisRoots(ctx)
}

func (a *c09Acc) Sample(ctx context.Context, idx shwap.SampleCoords) (shwap.Sample, error) {
	if err := a.build(); err != nil {
		return shwap.Sample{}, err
	}
	return a.AccessorStreamer.Sample(ctx, idx)
}

func (a *c09Acc) AxisHalf(ctx context.Context, axis rsmt2d.Axis, idx int) (shwap.AxisHalf, error) {
	if err := a.build(); err != nil {
		return shwap.AxisHalf{}, err
	}
	return a.AccessorStreamer.AxisHalf(ctx, axis, idx)
}

func (a *c09Acc) RangeNamespaceData(ctx context.Context, from, to int) (shwap.RangeNamespaceData, error) {
	if err := a.build(); err != nil {
		return shwap.RangeNamespaceData{}, err
	}
	return a.AccessorStreamer.RangeNamespaceData(ctx, from, to)
}

func (a *c09Acc) Close() error {
	a.c.mu.Lock()
	a.c.closed++
	a.c.mu.Unlock()
	return a.AccessorStreamer.Close()
}

func (s *c09Store) GetByHeight(ctx context.Context, h uint64) (eds.AccessorStreamer, error) {
	c := s.get()
	acc, err := s.others[c.getter].GetByHeight(ctx, h)
	if err != nil {
		return nil, err // handed to the server exactly as the getter returned it
	}
	if c.fault == c09FStore { // the block is there, the store fails otherwise
		_ = acc.Close()
		return nil, errC09Injected
	}
	c.mu.Lock()
	c.opened++
	c.mu.Unlock()
	return &c09Acc{AccessorStreamer: acc, c: c}, nil
}
func (s *c09Store) HasByHeight(ctx context.Context, h uint64) (bool, error) {
	return s.inner.HasByHeight(ctx, h)
}

type c09Scope struct {
	network.StreamScope
	c     *c09Counters
	limit int64
}

func (s *c09Scope) ReserveMemory(n int, _ uint8) error {
	s.c.mu.Lock()
	defer s.c.mu.Unlock()
	if n < 0 {
		s.c.negative = true
	}
	if int64(n) > s.limit {
		s.c.denied = true
		return network.ErrResourceLimitExceeded
	}
	s.c.reserved += int64(n)
	return nil
}
func (s *c09Scope) ReleaseMemory(n int) {
	s.c.mu.Lock()
	s.c.released += int64(n)
	s.c.mu.Unlock()
}

type c09Stream struct {
	network.Stream
	scope *c09Scope
}

func (s *c09Stream) Scope() network.StreamScope { return s.scope }
func (s *c09Stream) Reset() error {
	s.scope.c.mu.Lock()
	if s.scope.c.resetErr < 0 {
		s.scope.c.resetErr = 0
	}
	s.scope.c.mu.Unlock()
	return s.Stream.Reset()
}
func (s *c09Stream) ResetWithError(code network.StreamErrorCode) error {
	s.scope.c.mu.Lock()
	s.scope.c.resetErr = int(code)
	s.scope.c.mu.Unlock()
	return s.Stream.ResetWithError(code)
}

// ---------------------------------------------------------------------------------------------- fixture

type c09H struct {
	t       *testing.T
	r       *zv.Run
	g       *zv.Group
	squares []*c09Square
	cl, sv  host.Host
	srv     *Server
	client  *Client
	cur     *c09Counters
	limit   int64
	mu      sync.Mutex
	getter  int  // c09G*: the getter behind the server for the requests that follow
	dead    bool // a handler hung: the fixture is no longer usable, the run stops generating
}

var c09Protos = []string{"PEds", "PRow", "PSample", "PNd", "PRange"}

func c09NewReq(p string) request {
	switch p {
	case "PEds":
		return &shwap.EdsID{}
	case "PRow":
		return &shwap.RowID{}
	case "PSample":
		return &shwap.SampleID{}
	case "PNd":
		return &shwap.NamespaceDataID{}
	}
	return &shwap.RangeNamespaceDataID{}
}

func c09Size(p string) int {
	switch p {
	case "PEds":
		return shwap.EdsIDSize
	case "PRow":
		return shwap.RowIDSize
	case "PSample":
		return shwap.SampleIDSize
	case "PNd":
		return shwap.NamespaceDataIDSize
	}
	return shwap.RangeNamespaceDataIDSize
}

func newC09(t *testing.T, r *zv.Run) *c09H {
	h := &c09H{t: t, r: r}
	rng := r.Rand()
	for i, k := range []int{1, 2, 4, 8, 16} {
		h.squares = append(h.squares, c09GenSquare(t, rng.Fork(uint64(i)), k, uint64(30+i)))
	}
	st, err := store.NewStore(store.DefaultParameters(), t.TempDir())
	if err != nil {
		t.Fatal(err)
	}
	for _, sq := range h.squares {
		if err := st.PutODSQ4(context.Background(), sq.roots, sq.height, sq.q); err != nil {
			t.Fatal(err)
		}
	}
	mn, err := mocknet.FullMeshConnected(2)
	if err != nil {
		t.Fatal(err)
	}
	h.cl, h.sv = mn.Hosts()[0], mn.Hosts()[1]
	sp := DefaultServerParameters()
	sp.WithNetworkID("verif")
	cached, err := st.WithCache("c09", 4)
	if err != nil {
		t.Fatal(err)
	}
	cs := &c09Store{inner: st, others: []store.AccessorGetter{st, cached, c09WrappingGetter{inner: st}}}
	h.srv, err = NewServer(sp, h.sv, cs)
	if err != nil {
		t.Fatal(err)
	}
	h.srv.rateLimiter = nil // thousands of requests from one address: the per-IP limiter is not the subject here
	for _, p := range c09Protos {
		p := p
		mk := func() request { return c09NewReq(p) }
		inner := h.srv.streamHandler(h.srv.ctx, mk)
		sentinel := func(s network.Stream) {
			defer func() {
				if e := recover(); e != nil {
					c := s.(*c09Stream).scope.c
					c.mu.Lock()
					c.panics = append(c.panics, fmt.Sprint(e))
					c.mu.Unlock()
					panic(e) // hand it on to the real recovery middleware
				}
			}()
			inner(s)
		}
		chain := RecoveryMiddleware(sentinel)
		h.sv.SetStreamHandler(ProtocolID("verif", mk().Name()), func(s network.Stream) {
			h.mu.Lock()
			c, lim := h.cur, h.limit
			h.mu.Unlock()
			defer c.finish()
			close(c.started)
			cs.set(c)
			chain(&c09Stream{Stream: s, scope: &c09Scope{StreamScope: s.Scope(), c: c, limit: lim}})
		})
	}
	cp := DefaultClientParameters()
	cp.WithNetworkID("verif")
	h.client, err = NewClient(cp, h.cl)
	if err != nil {
		t.Fatal(err)
	}
	return h
}

type c09Out struct {
	Class    string `json:"class"` // reset | resetlimit | notfound | internal | ok
	Payload  []byte `json:"-"`
	Opened   int    `json:"opened"`
	Closed   int    `json:"closed"`
	Reserved int64  `json:"reserved"`
	Released int64  `json:"released"`
	Panics   []string
	Hang     bool
	Negative bool
	// NotStarted: the stream never reached the handler (protocol negotiation did not complete) — nothing to judge
	NotStarted bool
}

// raw sends request bytes on a fresh stream of protocol p and classifies the answer.
func (h *c09H) raw(p string, req []byte, limit int64, closeWrite bool, fault int) c09Out {
	c := c09NewCounters(h.getter, fault)
	h.mu.Lock()
	h.cur, h.limit = c, limit
	h.mu.Unlock()
	ctx, cancel := context.WithTimeout(context.Background(), 30*time.Second)
	defer cancel()
	out := c09Out{}
	s, err := h.cl.NewStream(ctx, h.sv.ID(), ProtocolID("verif", c09NewReq(p).Name()))
	if err != nil {
		h.t.Fatalf("open stream: %v", err)
	}
	if len(req) > 0 {
		_, _ = s.Write(req)
	}
	if closeWrite {
		_ = s.CloseWrite()
	}
	var st shrexpb.Response
	var rerr error
	var payload []byte
	rdone := make(chan struct{})
	go func() { // mocknet streams have no deadlines: the watchdog is ours
		defer close(rdone)
		_, rerr = serde.Read(s, &st)
		if rerr == nil && st.Status == shrexpb.Status_OK {
			payload, rerr = io.ReadAll(s)
		}
	}()
	if !closeWrite {
		// the client goes away in the middle of its request: once the protocol is negotiated (the pending read above flushes the
		// lazy multistream handshake) and the handler sits in its read, the stream is reset under it
		select {
		case <-c.started:
		case <-time.After(30 * time.Second):
			out.NotStarted = true
		}
		_ = s.Reset()
		if out.NotStarted {
			<-rdone
			out.Class = "reset"
			return out
		}
	}
	select {
	case <-rdone:
	case <-time.After(30 * time.Second):
		out.Hang = true
		_ = s.Reset()
		<-rdone
	}
	_ = s.Close()
	select {
	case <-c.done:
	case <-time.After(30 * time.Second):
		out.Hang = true
	}
	c.mu.Lock()
	defer c.mu.Unlock()
	out.Opened, out.Closed, out.Reserved, out.Released, out.Panics, out.Negative = c.opened, c.closed, c.reserved, c.released, c.panics, c.negative
	switch {
	case c.denied:
		out.Class = "resetlimit"
	case c.resetErr >= 0 || rerr != nil && st.Status == shrexpb.Status_INVALID:
		out.Class = "reset"
	case st.Status == shrexpb.Status_NOT_FOUND:
		out.Class = "notfound"
	case st.Status == shrexpb.Status_INTERNAL:
		out.Class = "internal"
	case st.Status == shrexpb.Status_OK && rerr == nil:
		out.Class, out.Payload = "ok", payload
	default:
		out.Class = "reset"
	}
	return out
}

// ---------------------------------------------------------------------------------------------- expectations (independent)

type c09Want struct {
	Malformed bool // the bytes are not a valid identifier of the protocol
	Known     bool // the height is stored
	InBounds  bool // the identifier addresses data inside the stored square
	BuildOK   bool // the stored square can answer it
	Refused   bool // well formed on the wire, yet the implementation's ReadFrom / Validate refuses it
}

// c09WellFormed: the request grammar of the five protocols, written down independently of share/shwap.
func c09WellFormed(p string, req []byte) bool {
	u := func(b []byte) (v uint64) {
		for _, x := range b {
			v = v<<8 | uint64(x)
		}
		return
	}
	size := map[string]int{"PEds": 8, "PRow": 10, "PSample": 12, "PNd": 37, "PRange": 16}[p]
	if len(req) != size || u(req[:8]) == 0 {
		return false
	}
	switch p {
	case "PNd":
		ns, err := libshare.NewNamespaceFromBytes(req[8:37])
		return err == nil && ns.ValidateForData() == nil
	case "PRange":
		return u(req[8:12]) < u(req[12:16])
	}
	return true
}

func (h *c09H) squareAt(height uint64) *c09Square {
	for _, sq := range h.squares {
		if sq.height == height {
			return sq
		}
	}
	return nil
}

func (h *c09H) expect(p string, req []byte) (w c09Want, id request, sq *c09Square) {
	id = c09NewReq(p)
	n := c09Size(p)
	if len(req) < n {
		w.Malformed = true
		return
	}
	// well-formedness is decided from the wire format alone, not by the code under test: a non-zero height, any 16-bit
	// row / column, a namespace go-square accepts for data, from < to
	wf := c09WellFormed(p, req[:n])
	_, rerr := id.ReadFrom(bytes.NewReader(req[:n]))
	implOK := rerr == nil && id.Validate() == nil
	if !wf {
		w.Malformed = true
		return
	}
	if !implOK {
		w.Refused = true // a well-formed request the implementation's decoder / Validate turns down
		return
	}
	sq = h.squareAt(id.Height())
	if sq == nil {
		return
	}
	w.Known = true
	wd := 2 * sq.k
	switch x := id.(type) {
	case *shwap.EdsID, *shwap.NamespaceDataID:
		w.InBounds = true
	case *shwap.RowID:
		w.InBounds = x.RowIndex < wd
	case *shwap.SampleID:
		w.InBounds = x.RowIndex < wd && x.ShareIndex < wd
	case *shwap.RangeNamespaceDataID:
		w.InBounds = x.From < x.To && x.To <= sq.k*sq.k
	}
	if w.InBounds {
		// what the stored square can answer, decided from the square alone: everything inside it, except a share range that spans
		// more than one namespace (RangeNamespaceData is the data of ONE namespace; RangeNamespaceDataFromShares refuses otherwise)
		w.BuildOK = true
		if x, ok := id.(*shwap.RangeNamespaceDataID); ok {
			for _, s := range sq.ods[x.From:x.To] {
				if !s.Namespace().Equals(sq.ods[x.From].Namespace()) {
					w.BuildOK = false
				}
			}
		}
	}
	return
}

// verifyPayload decodes the payload with the client's container and checks it against the header and the stored data.
func c09Verify(id request, sq *c09Square, payload []byte) error {
	rd := bytes.NewReader(payload)
	flat := func(s []libshare.Share) []byte { return bytes.Join(libshare.ToBytes(s), nil) }
	switch x := id.(type) {
	case *shwap.SampleID:
		var s shwap.Sample
		if _, err := s.ReadFrom(rd); err != nil {
			return err
		}
		if err := s.Verify(sq.roots, x.RowIndex, x.ShareIndex); err != nil {
			return err
		}
		if !bytes.Equal(s.ToBytes(), sq.q.GetCell(uint(x.RowIndex), uint(x.ShareIndex))) {
			return errors.New("share differs from the stored share")
		}
	case *shwap.RowID:
		var r shwap.Row
		if _, err := r.ReadFrom(rd); err != nil {
			return err
		}
		if err := r.Verify(sq.roots, x.RowIndex); err != nil {
			return err
		}
		shs, _ := r.Shares()
		if !bytes.Equal(flat(shs), bytes.Join(sq.q.Row(uint(x.RowIndex)), nil)) {
			return errors.New("row differs from the stored row")
		}
	case *shwap.EdsID:
		acc, err := eds.ReadAccessor(context.Background(), rd, sq.roots)
		if err != nil {
			return err
		}
		if !bytes.Equal(bytes.Join(acc.FlattenedODS(), nil), bytes.Join(sq.q.FlattenedODS(), nil)) {
			return errors.New("square differs from the stored square")
		}
	case *shwap.NamespaceDataID:
		var nd shwap.NamespaceData
		if _, err := nd.ReadFrom(rd); err != nil {
			return err
		}
		if err := nd.Verify(sq.roots, x.DataNamespace); err != nil {
			return err
		}
		var want []libshare.Share
		for _, s := range sq.ods {
			if s.Namespace().Equals(x.DataNamespace) {
				want = append(want, s)
			}
		}
		if !bytes.Equal(flat(nd.Flatten()), flat(want)) {
			return errors.New("namespace data differs from the stored shares of the namespace")
		}
	case *shwap.RangeNamespaceDataID:
		var rg shwap.RangeNamespaceData
		if _, err := rg.ReadFrom(rd); err != nil {
			return err
		}
		from, _ := shwap.SampleCoordsFrom1DIndex(x.From, sq.k)
		to, _ := shwap.SampleCoordsFrom1DIndex(x.To-1, sq.k)
		if err := rg.VerifyInclusion(from, to, sq.k, sq.roots.RowRoots[from.Row:to.Row+1]); err != nil {
			return err
		}
		if !bytes.Equal(flat(rg.Flatten()), flat(sq.ods[x.From:x.To])) {
			return errors.New("range data differs from the stored shares")
		}
	}
	return nil
}

// clientGet runs the real client for a valid identifier and verifies the container as the getter does.
func (h *c09H) clientGet(p string, id request, sq *c09Square) error {
	if h.dead {
		return nil
	}
	c := c09NewCounters(h.getter, c09FNone)
	h.mu.Lock()
	h.cur, h.limit = c, 1<<40
	h.mu.Unlock()
	ctx, cancel := context.WithTimeout(context.Background(), 30*time.Second)
	defer cancel()
	var buf bytes.Buffer
	var err error
	switch x := id.(type) {
	case *shwap.SampleID:
		var s shwap.Sample
		if err = h.client.Get(ctx, x, &s, h.sv.ID()); err == nil {
			_, err = s.WriteTo(&buf)
		}
	case *shwap.RowID:
		var r shwap.Row
		if err = h.client.Get(ctx, x, &r, h.sv.ID()); err == nil {
			_, err = r.WriteTo(&buf)
		}
	case *shwap.EdsID:
		err = h.client.Get(ctx, x, &buf, h.sv.ID())
	case *shwap.NamespaceDataID:
		var nd shwap.NamespaceData
		if err = h.client.Get(ctx, x, &nd, h.sv.ID()); err == nil {
			_, err = nd.WriteTo(&buf)
		}
	case *shwap.RangeNamespaceDataID:
		var rg shwap.RangeNamespaceData
		if err = h.client.Get(ctx, x, &rg, h.sv.ID()); err == nil {
			_, err = rg.WriteTo(&buf)
		}
	}
	select {
	case <-c.done:
	case <-time.After(30 * time.Second):
		h.dead = true
		return errors.New("the server's handler did not finish within 30s of the client's return")
	}
	h.r.Count("client", p+":get")
	if err != nil {
		return fmt.Errorf("client.Get: %w", err)
	}
	if c.opened != 1 || c.closed != 1 || c.reserved != c.released {
		return fmt.Errorf("imbalance after a served client request: opened %d closed %d reserved %d released %d", c.opened, c.closed, c.reserved, c.released)
	}
	return c09Verify(id, sq, buf.Bytes())
}

// clientCheck: a request that is valid, in bounds and answerable goes through the real Client; the container it returns must
// verify against the block's roots and equal the stored data.
func (h *c09H) clientCheck(p string, req []byte) {
	w, id, sq := h.expect(p, req)
	if !w.BuildOK {
		return
	}
	if err := h.clientGet(p, id, sq); err != nil {
		h.r.Violation("client-rejects:"+p, err.Error(), map[string]any{"proto": p, "client": "get", "getter": c09GetterCoq[h.getter], "req_hex": fmt.Sprintf("%x", req), "heights": h.heightsJSON()})
	}
}

func (h *c09H) clientNotFoundCheck(p string, req []byte) {
	if err := h.clientNotFound(p, req); err != nil {
		h.r.Violation("client-notfound:"+p, err.Error(), map[string]any{"proto": p, "client": "notfound", "getter": c09GetterCoq[h.getter], "req_hex": fmt.Sprintf("%x", req), "heights": h.heightsJSON()})
	}
}

// clientNotFound: the real client asking for a height the server does not hold must report ErrNotFound.
func (h *c09H) clientNotFound(p string, req []byte) error {
	if h.dead {
		return nil
	}
	id := c09NewReq(p)
	if _, err := id.ReadFrom(bytes.NewReader(req)); err != nil || h.squareAt(id.Height()) != nil {
		return nil
	}
	c := c09NewCounters(h.getter, c09FNone)
	h.mu.Lock()
	h.cur, h.limit = c, 1<<40
	h.mu.Unlock()
	ctx, cancel := context.WithTimeout(context.Background(), 30*time.Second)
	defer cancel()
	var resp response
	switch id.(type) {
	case *shwap.SampleID:
		resp = &shwap.Sample{}
	case *shwap.RowID:
		resp = &shwap.Row{}
	case *shwap.EdsID:
		resp = &bytes.Buffer{}
	case *shwap.NamespaceDataID:
		resp = &shwap.NamespaceData{}
	default:
		resp = &shwap.RangeNamespaceData{}
	}
	err := h.client.Get(ctx, id, resp, h.sv.ID())
	select {
	case <-c.done:
	case <-time.After(30 * time.Second):
		h.dead = true
		return errors.New("the server's handler did not finish within 30s of the client's return")
	}
	h.r.Count("client", p+":unknown-height:"+c09GetterCoq[h.getter])
	if !errors.Is(err, ErrNotFound) {
		return fmt.Errorf("client.Get for a height the server does not hold returned %v, not ErrNotFound", err)
	}
	if c.opened != c.closed || c.reserved != c.released {
		return fmt.Errorf("imbalance after a not-found request: opened %d closed %d reserved %d released %d", c.opened, c.closed, c.reserved, c.released)
	}
	return nil
}

// ---------------------------------------------------------------------------------------------- one case

func (h *c09H) heightsJSON() [][2]uint64 {
	var xs [][2]uint64
	for _, sq := range h.squares {
		xs = append(xs, [2]uint64{sq.height, uint64(2 * sq.k)})
	}
	return xs
}

func (h *c09H) heightsCoq() string {
	var xs []string
	for _, sq := range h.squares {
		xs = append(xs, zv.Tuple(zv.ZU(sq.height), zv.Z(int64(2*sq.k))))
	}
	return zv.List(xs)
}

func (h *c09H) try(p, fam string, req []byte, limit int64, closeWrite bool) {
	h.tryF(p, fam, req, limit, closeWrite, c09FNone)
}

func (h *c09H) tryF(p, fam string, req []byte, limit int64, closeWrite bool, fault int) {
	if h.dead {
		return
	}
	out := h.raw(p, req, limit, closeWrite, fault)
	if out.NotStarted {
		h.r.Count("request", p+":"+fam+":not-negotiated")
		return
	}
	if out.Hang {
		h.dead = true // the stuck handler keeps the fixture's counters: nothing after this can be attributed
		h.t.Logf("C09: hang on %s %s req=%x limit=%d closeWrite=%v class=%s", p, fam, req, limit, closeWrite, out.Class)
	}
	w, id, sq := h.expect(p, req)
	replay := map[string]any{"proto": p, "fam": fam, "req_hex": fmt.Sprintf("%x", req), "limit": limit, "close_write": closeWrite,
		"fault": c09FaultCoq[fault], "getter": c09GetterCoq[h.getter], "observed": out, "heights": h.heightsJSON()}
	obs := map[string]string{"reset": "SReset", "resetlimit": "SResetLimit", "notfound": "SNF", "internal": "SINT", "ok": "SOK"}[out.Class]
	term := zv.App("SHandle", p, zv.Bytes(req), "hs", zv.Z(limit), zv.Bool(w.BuildOK), c09FaultCoq[fault], c09GetterCoq[h.getter], obs,
		zv.Nat(out.Opened), zv.Nat(out.Closed), zv.Z(out.Reserved), zv.Z(out.Released))
	key := ""
	if fam != "valid" {
		key = "hostile"
	} else if out.Class == "ok" {
		key = "served"
	}
	if closeWrite { // a client that resets is judged by the oracle only: how many bytes the handler saw before is timing
		h.g.Case(term, map[string]any{"proto": p, "fam": fam, "req_hex": fmt.Sprintf("%x", req), "limit": limit, "fault": c09FaultCoq[fault], "getter": c09GetterCoq[h.getter], "class": out.Class}, key)
	}
	h.r.Count("request", p+":"+fam)
	h.r.Count("outcome", p+":"+out.Class)
	h.r.Count("getter", c09GetterCoq[h.getter]+":"+out.Class)
	// ---- L3
	for _, pn := range out.Panics {
		if fault != c09FBuildPanic || pn != c09InjectedPanic {
			h.r.Violation("server-panic:"+p, "the handler panicked: "+pn, replay)
			break
		}
	}
	if fault == c09FBuildPanic && w.BuildOK && limit >= 1<<30 {
		h.r.Count("fault", p+":panic-reached-recovery:"+fmt.Sprint(len(out.Panics) == 1))
		if out.Class != "reset" {
			h.r.Violation("panic-not-reset:"+p, "the accessor panicked while the answer was built and the stream was not reset: "+out.Class, replay)
		}
	}
	if out.Hang {
		h.r.Violation("server-hang:"+p, "the handler did not finish", replay)
	}
	if out.Opened != out.Closed {
		h.r.Violation("imbalance:accessor:"+p, fmt.Sprintf("accessors opened %d, closed %d", out.Opened, out.Closed), replay)
	}
	if out.Reserved != out.Released {
		h.r.Violation("imbalance:memory:"+p, fmt.Sprintf("memory reserved %d, released %d", out.Reserved, out.Released), replay)
	}
	if out.Negative || out.Reserved < 0 {
		h.r.Violation("negative-reservation:"+p, "a negative amount of memory was reserved", replay)
	}
	switch {
	case w.Refused:
		if closeWrite {
			h.r.Violation("wellformed-refused:"+p, "a well-formed request is turned down by the identifier's ReadFrom / Validate; the server answered "+out.Class, replay)
		}
	case w.Malformed || (w.Known && !w.InBounds):
		if out.Class == "ok" {
			h.r.Violation("malformed-served:"+p+":"+fam, "a malformed or out-of-bounds request was answered OK", replay)
		}
	case !w.Known:
		if out.Class != "notfound" && closeWrite {
			h.r.Violation("notfound-wrong:"+p, "a valid request for a height the store does not hold was answered "+out.Class, replay)
		}
	case fault != c09FNone:
		if out.Class == "ok" {
			h.r.Violation("fault-served:"+p, "the store / accessor failed and the request was answered OK", replay)
		}
	case w.BuildOK && limit >= 1<<30:
		if out.Class != "ok" {
			h.r.Violation("serve-failed:"+p, "a well-formed in-bounds request for a stored block was answered "+out.Class, replay)
		} else if err := c09Verify(id, sq, out.Payload); err != nil {
			h.r.Violation("serve-wrong-data:"+p, "the reply to a well-formed request is not accepted / is not the stored data: "+err.Error(), replay)
		}
	}
}

// ---------------------------------------------------------------------------------------------- generators

func be(n int, v uint64) []byte {
	b := make([]byte, n)
	for i := 0; i < n; i++ {
		b[n-1-i] = byte(v >> (8 * i))
	}
	return b
}

func c09Req(p string, height uint64, a, b uint64, ns []byte) []byte {
	out := be(8, height)
	switch p {
	case "PRow":
		out = append(out, be(2, a)...)
	case "PSample":
		out = append(append(out, be(2, a)...), be(2, b)...)
	case "PNd":
		out = append(out, ns...)
	case "PRange":
		out = append(append(out, be(4, a)...), be(4, b)...)
	}
	return out
}

func (h *c09H) namespaces(rng *zv.Rand, sq *c09Square) (out [][]byte) {
	for _, r := range sq.runs {
		out = append(out, r.ns.Bytes())
		if ab, err := r.ns.AddInt(1); err == nil {
			out = append(out, ab.Bytes()) // absent, mostly inside some row's range
		}
	}
	out = append(out, c09V0ns(1).Bytes(), c09V0ns(1<<40).Bytes()) // below / above everything
	out = append(out, libshare.TxNamespace.Bytes(), libshare.PayForBlobNamespace.Bytes(), libshare.PrimaryReservedPaddingNamespace.Bytes(),
		libshare.ParitySharesNamespace.Bytes(), libshare.TailPaddingNamespace.Bytes())
	bad := c09V0ns(5).Bytes()
	bad[0] = 3
	bad2 := c09V0ns(6).Bytes()
	bad2[4] = 9
	out = append(out, bad, bad2, rng.Bytes(29))
	return out
}

func TestVerifC09(t *testing.T) {
	r := zv.Start(t, "C09")
	defer r.Finish()
	rng := r.Rand()
	h := newC09(t, r)
	// the stored heights and their EDS widths are the same for every case of a run: named once in the header
	h.g = r.Group("server", c09Header+"Definition hs : list (Z * Z) := "+h.heightsCoq()+".\n", "scase", "server_mismatches")
	const lim = int64(1) << 30

	// ---- replay of one recorded request
	var rp struct {
		Proto      string `json:"proto"`
		Fam        string `json:"fam"`
		ReqHex     string `json:"req_hex"`
		Limit      int64  `json:"limit"`
		CloseWrite bool   `json:"close_write"`
		Fault      string `json:"fault"`
		Client     string `json:"client"` // "" (raw request), "get", "notfound"
		Getter     string `json:"getter"`
	}
	if r.ReplayInput(&rp) && rp.Proto != "" {
		req, err := hex.DecodeString(rp.ReqHex)
		if err != nil {
			t.Fatalf("replay: %v", err)
		}
		for i, n := range c09GetterCoq {
			if n == rp.Getter {
				h.getter = i
			}
		}
		switch rp.Client {
		case "get":
			h.clientCheck(rp.Proto, req)
		case "notfound":
			h.clientNotFoundCheck(rp.Proto, req)
		default:
			fault := c09FNone
			for i, n := range c09FaultCoq {
				if n == rp.Fault {
					fault = i
				}
			}
			h.tryF(rp.Proto, rp.Fam, req, rp.Limit, rp.CloseWrite, fault)
		}
		return
	}

	// ---- ResponseSize of every identifier type
	for _, p := range c09Protos {
		for _, e := range []int{1, 2, 3, 4, 5, 6, 7, 8, 15, 16, 17, 31, 32, 33, 64, 100, 127, 128, 255, 256, 512, 1000, 1023, 1024, 1025, 2048} {
			for _, ft := range [][2]int{{0, 0}, {0, 1}, {3, 9}, {0, 262144}, {1, 1 << 31}, {0, 1<<32 - 1}, {5, 5}} {
				id := c09NewReq(p)
				if rg, ok := id.(*shwap.RangeNamespaceDataID); ok {
					rg.From, rg.To = ft[0], ft[1]
				} else if ft != [2]int{0, 0} {
					continue
				}
				var out int
				if pn := zv.Recover(func() { out = id.ResponseSize(e) }); pn != "" {
					r.Violation("responsesize-panic:"+p, pn, nil)
					continue
				}
				h.g.Case(zv.App("SSize", p, zv.Z(int64(e)), zv.App("mkid", "0", zv.Z(int64(ft[0])), zv.Z(int64(ft[1])), "[]"), zv.Z(int64(out))),
					map[string]any{"op": "size", "proto": p, "eds": e, "from": ft[0], "to": ft[1], "out": out}, "size")
				if out < 0 {
					r.Violation("negative-responsesize:"+p, fmt.Sprintf("ResponseSize(%d) = %d", e, out), nil)
				}
			}
		}
	}

	// ---- structured requests: exhaustive for ODS width 1, 2, 4; sampled above
	for sqi, sq := range h.squares {
		w := uint64(2 * sq.k)
		n := uint64(sq.k * sq.k)
		exhaustive := sq.k <= 4
		pick := func(pct int) bool { return exhaustive || rng.Chance(pct) }
		heights := []uint64{sq.height}
		// EDS
		h.try("PEds", "valid", c09Req("PEds", sq.height, 0, 0, nil), lim, true)
		if sq.k <= 8 {
			h.clientCheck("PEds", c09Req("PEds", sq.height, 0, 0, nil))
		}
		// rows and samples: every index from 0 to one beyond the bound, plus the extremes of the wire format
		idx := []uint64{}
		for i := uint64(0); i <= w+1; i++ {
			idx = append(idx, i)
		}
		idx = append(idx, 255, 256, 32767, 65535)
		for _, a := range idx {
			if !pick(30) && a < w {
				continue
			}
			fam := "valid"
			if a >= w {
				fam = "row-beyond"
			}
			h.try("PRow", fam, c09Req("PRow", heights[0], a, 0, nil), lim, true)
			if a < w && pick(50) {
				h.clientCheck("PRow", c09Req("PRow", sq.height, a, 0, nil))
			}
			for _, b := range idx {
				if !exhaustive && !rng.Chance(4) {
					continue
				}
				fam := "valid"
				if a >= w || b >= w {
					fam = "coord-beyond"
				}
				h.try("PSample", fam, c09Req("PSample", heights[0], a, b, nil), lim, true)
				if a < w && b < w && (sq.k <= 2 || rng.Chance(15)) {
					h.clientCheck("PSample", c09Req("PSample", sq.height, a, b, nil))
				}
			}
		}
		// namespaces
		for _, ns := range h.namespaces(rng, sq) {
			fam := "valid"
			if nsv, err := libshare.NewNamespaceFromBytes(ns); err != nil || nsv.ValidateForData() != nil {
				fam = "bad-namespace"
			}
			h.try("PNd", fam, c09Req("PNd", sq.height, 0, 0, ns), lim, true)
			if fam == "valid" {
				h.clientCheck("PNd", c09Req("PNd", sq.height, 0, 0, ns))
			}
		}
		// ranges: every (from, to) up to one beyond the square, plus the extremes
		pts := []uint64{}
		for i := uint64(0); i <= n+1; i++ {
			pts = append(pts, i)
		}
		pts = append(pts, 65535, 65536, 1<<31, 1<<32-1)
		for _, a := range pts {
			for _, b := range pts {
				if !exhaustive && !rng.Chance(2) {
					continue
				}
				if sq.k == 4 && a <= n && b <= n && !rng.Chance(40) {
					continue
				}
				fam := "valid"
				switch {
				case a >= b:
					fam = "from>=to"
				case b > n:
					fam = "range-beyond"
				}
				h.try("PRange", fam, c09Req("PRange", sq.height, a, b, nil), lim, true)
				if fam == "valid" && (sq.k <= 2 || rng.Chance(10)) {
					h.clientCheck("PRange", c09Req("PRange", sq.height, a, b, nil))
				}
			}
		}
		// the edges of this square and of its first namespace run, always (also for the sampled widths)
		if !exhaustive {
			for _, c := range [][2]uint64{{0, 0}, {w - 1, w - 1}, {w - 1, w}, {w, w - 1}, {0, w}, {w, 0}, {w, w}} {
				fam := "valid"
				if c[0] >= w || c[1] >= w {
					fam = "coord-beyond"
				}
				h.try("PSample", fam, c09Req("PSample", sq.height, c[0], c[1], nil), lim, true)
				h.clientCheck("PSample", c09Req("PSample", sq.height, c[0], c[1], nil))
			}
			for _, a := range []uint64{0, w - 1, w} {
				fam := "valid"
				if a >= w {
					fam = "row-beyond"
				}
				h.try("PRow", fam, c09Req("PRow", sq.height, a, 0, nil), lim, true)
				h.clientCheck("PRow", c09Req("PRow", sq.height, a, 0, nil))
			}
			r0, rl := sq.runs[0], sq.runs[len(sq.runs)-1]
			for _, c := range [][2]uint64{{0, 1}, {0, n}, {0, n + 1}, {n - 1, n}, {n - 1, n + 1}, {n, n + 1}, {n + 1, n + 2},
				{uint64(r0.from), uint64(r0.to)}, {uint64(r0.from), uint64(r0.to) + 1}, {uint64(r0.to) - 1, uint64(r0.to) + 1},
				{uint64(rl.from), uint64(rl.to)}, {uint64(rl.from), n}, {1, uint64(sq.k)}, {1, uint64(sq.k) + 1}, {0, uint64(sq.k)}, {uint64(sq.k) - 1, uint64(2*sq.k) + 1}} {
				fam := "valid"
				switch {
				case c[0] >= c[1]:
					fam = "from>=to"
				case c[1] > n:
					fam = "range-beyond"
				}
				h.try("PRange", fam, c09Req("PRange", sq.height, c[0], c[1], nil), lim, true)
				h.clientCheck("PRange", c09Req("PRange", sq.height, c[0], c[1], nil))
			}
		}
		// zero / unknown heights, wrong lengths, a tight memory budget, a client that stops sending
		for _, p := range c09Protos {
			ns := sq.runs[0].ns.Bytes()
			good := c09Req(p, sq.height, 0, 1, ns)
			h.try(p, "zero-height", c09Req(p, 0, 0, 1, ns), lim, true)
			h.try(p, "unknown-height", c09Req(p, sq.height+1000, 0, 1, ns), lim, true)
			h.try(p, "unknown-height", c09Req(p, 1<<63, 0, 1, ns), lim, true)
			for _, cut := range []int{0, 1, len(good) - 1} {
				h.try(p, "short", good[:cut], lim, true)
			}
			h.try(p, "long", append(append([]byte{}, good...), rng.Bytes(1+rng.Intn(30))...), lim, true)
			h.try(p, "tight-budget", good, int64(rng.Intn(2000)), true)
			h.try(p, "tight-budget", good, 0, true)
			for f := c09FStore; f <= c09FBuildPanic; f++ { // the store / the accessor fails or panics behind the server
				h.tryF(p, "fault", good, lim, true, f)
			}
			h.clientNotFoundCheck(p, c09Req(p, sq.height+1000, 0, 1, ns))
			if sqi == 1 {
				h.try(p, "client-resets", good[:len(good)-1], lim, false)
				h.try(p, "client-resets", nil, lim, false)
			}
		}
	}
	// ---- the same server with another AccessorGetter in front of the store: what it holds it serves, what it does not hold is
	// "not found" — the getter's added error context must not turn that into INTERNAL
	for _, gt := range []int{c09GCached, c09GWrapping} {
		h.getter = gt
		for _, sq := range h.squares {
			for _, p := range c09Protos {
				ns := sq.runs[0].ns.Bytes()
				good := c09Req(p, sq.height, 0, 1, ns)
				h.try(p, "getter:valid", good, lim, true)
				h.clientCheck(p, good)
				for _, uh := range []uint64{sq.height + 1000, 1, 1 << 63, rng.U64() | 1<<20} {
					h.try(p, "getter:unknown-height", c09Req(p, uh, 0, 1, ns), lim, true)
				}
				h.clientNotFoundCheck(p, c09Req(p, sq.height+1000, 0, 1, ns))
				h.clientNotFoundCheck(p, c09Req(p, 1, 0, 1, ns))
				h.try(p, "getter:zero-height", c09Req(p, 0, 0, 1, ns), lim, true)
				h.try(p, "getter:tight-budget", good, 0, true)
				h.tryF(p, "getter:fault", good, lim, true, c09FBuildPanic)
				h.tryF(p, "getter:fault", good, lim, true, c09FSize)
			}
			// beyond the square through this getter as well (the validating wrapper sits inside what the getter returns)
			w := uint64(2 * sq.k)
			h.try("PSample", "getter:coord-beyond", c09Req("PSample", sq.height, w-1, w, nil), lim, true)
			h.try("PRow", "getter:row-beyond", c09Req("PRow", sq.height, w, 0, nil), lim, true)
			h.try("PRange", "getter:range-beyond", c09Req("PRange", sq.height, 0, uint64(sq.k*sq.k)+1, nil), lim, true)
		}
	}
	h.getter = c09GPlain
	// ---- random and mutated byte strings
	for i, n := 0, r.N(900, 20000); i < n; i++ {
		p := zv.Pick(rng, c09Protos)
		sq := zv.Pick(rng, h.squares)
		var req []byte
		fam := "random"
		if rng.Bool() {
			req = rng.Bytes(rng.Intn(2 * c09Size(p)))
		} else {
			fam = "mutated"
			req = c09Req(p, sq.height, uint64(rng.Intn(2*sq.k)), uint64(1+rng.Intn(2*sq.k)), zv.Pick(rng, sq.runs).ns.Bytes())
			req[rng.Intn(len(req))] ^= byte(1 << rng.Intn(8))
		}
		h.try(p, fam, req, lim, true)
	}
	r.Set("exhaustive", "ODS widths 1, 2, 4: every row / sample coordinate from 0 to one beyond the bound, every (from,to) pair up to one beyond the square (width 4: 40% of the in-square pairs), every namespace class")
}

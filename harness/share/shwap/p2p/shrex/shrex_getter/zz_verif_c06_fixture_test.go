//go:build verif

package shrex_getter //nolint:stylecheck

// C06 harness fixture: real squares in real stores, a libp2p mocknet with one client and several server hosts, real
// shrex.Server instances whose handlers are captured and invoked by a scripted dispatcher, an event-driven caller
// context and a metrics hook that reports when an executeRequest call has returned.

import (
	"bytes"
	"context"
	"errors"
	"fmt"
	"io"
	"sync"
	"sync/atomic"
	"testing"
	"time"

	"github.com/ipfs/go-datastore"
	ds_sync "github.com/ipfs/go-datastore/sync"
	"github.com/libp2p/go-libp2p/core/host"
	"github.com/libp2p/go-libp2p/core/network"
	libpeer "github.com/libp2p/go-libp2p/core/peer"
	"github.com/libp2p/go-libp2p/core/protocol"
	"github.com/libp2p/go-libp2p/p2p/net/conngater"
	mocknet "github.com/libp2p/go-libp2p/p2p/net/mock"
	"go.opentelemetry.io/otel/metric"
	"go.opentelemetry.io/otel/metric/embedded"

	"github.com/celestiaorg/celestia-app/v9/pkg/wrapper"
	"github.com/celestiaorg/go-libp2p-messenger/serde"
	libshare "github.com/celestiaorg/go-square/v4/share"
	"github.com/celestiaorg/rsmt2d"

	"github.com/celestiaorg/celestia-node/header"
	"github.com/celestiaorg/celestia-node/header/headertest"
	"github.com/celestiaorg/celestia-node/share"
	"github.com/celestiaorg/celestia-node/share/availability"
	"github.com/celestiaorg/celestia-node/share/eds"
	"github.com/celestiaorg/celestia-node/share/shwap"
	"github.com/celestiaorg/celestia-node/share/shwap/p2p/shrex"
	shrexpb "github.com/celestiaorg/celestia-node/share/shwap/p2p/shrex/pb"
	"github.com/celestiaorg/celestia-node/share/shwap/p2p/shrex/peers"
	"github.com/celestiaorg/celestia-node/store"
	zv "github.com/celestiaorg/celestia-node/zzverif"
)

const c06NetworkID = "verif"

// ---------------------------------------------------------------------------------------------- squares

// c06Square is one block: the committed square Q (what the header commits to) and an unrelated square of the same
// shape and namespaces (what a dishonest peer may answer with).
type c06Square struct {
	k      int
	height uint64
	q      *rsmt2d.ExtendedDataSquare
	other  *rsmt2d.ExtendedDataSquare
	roots  *share.AxisRoots
	eh     *header.ExtendedHeader
	acc    eds.Rsmt2D
	oacc   eds.Rsmt2D
	ods    []libshare.Share
	runs   []c06Run // namespace runs in the ODS, in order
}

type c06Run struct {
	ns       libshare.Namespace
	from, to int // ODS 1D index range [from, to)
}

func c06V0ns(x uint64) libshare.Namespace {
	b := make([]byte, 10)
	for i := 0; i < 8; i++ {
		b[9-i] = byte(x >> (8 * i))
	}
	return libshare.MustNewV0Namespace(b)
}

func c06MkShare(ns libshare.Namespace, rng *zv.Rand) libshare.Share {
	b := rng.Bytes(libshare.ShareSize)
	copy(b, ns.Bytes())
	// keep the info byte / sequence length harmless: the getters treat share bodies as opaque
	s, err := libshare.NewShare(b)
	if err != nil {
		panic(err)
	}
	return s
}

// c06GenSquare: a few namespaces, at least one spanning more than one row, optional tail padding.
func c06GenSquare(t testing.TB, rng *zv.Rand, k int, height uint64) *c06Square {
	n := k * k
	sq := &c06Square{k: k, height: height}
	var lens []int
	left := n
	pad := 0
	if k > 1 && rng.Chance(40) {
		pad = 1 + rng.Intn(k)
		left -= pad
	}
	for left > 0 {
		c := 1 + rng.Intn(2*k)
		if len(lens) == 0 && k > 1 {
			c = k + 1 + rng.Intn(k) // the first namespace always spans two rows
		}
		if c > left {
			c = left
		}
		lens = append(lens, c)
		left -= c
	}
	base := uint64(5000 + rng.Intn(1000))
	build := func() []libshare.Share {
		var out []libshare.Share
		for i, c := range lens {
			ns := c06V0ns(base + uint64(3*i))
			for j := 0; j < c; j++ {
				out = append(out, c06MkShare(ns, rng))
			}
		}
		for i := 0; i < pad; i++ {
			out = append(out, libshare.TailPaddingShare())
		}
		return out
	}
	sq.ods = build()
	pos := 0
	for i, c := range lens {
		sq.runs = append(sq.runs, c06Run{ns: c06V0ns(base + uint64(3*i)), from: pos, to: pos + c})
		pos += c
	}
	mk := func(shs []libshare.Share) *rsmt2d.ExtendedDataSquare {
		e, err := rsmt2d.ComputeExtendedDataSquare(libshare.ToBytes(shs), share.DefaultRSMT2DCodec(), wrapper.NewConstructor(uint64(k)))
		if err != nil {
			t.Fatal(err)
		}
		return e
	}
	sq.q = mk(sq.ods)
	sq.other = mk(build())
	var err error
	sq.roots, err = share.NewAxisRoots(sq.q)
	if err != nil {
		t.Fatal(err)
	}
	sq.acc = eds.Rsmt2D{ExtendedDataSquare: sq.q}
	sq.oacc = eds.Rsmt2D{ExtendedDataSquare: sq.other}
	sq.eh = headertest.RandExtendedHeaderWithRoot(t, sq.roots)
	sq.eh.RawHeader.Height = int64(height)
	sq.eh.RawHeader.Time = time.Now()
	return sq
}

// ---------------------------------------------------------------------------------------------- event context

// c06Ctx is the caller's context: it ends when the harness says so (an event inside a scripted peer), not when a wall
// clock does, so that "the deadline passes during attempt k" is exact and independent of machine load.
type c06Ctx struct {
	context.Context
	done  chan struct{}
	once  sync.Once
	fired atomic.Bool
}

func newC06Ctx() *c06Ctx { return &c06Ctx{Context: context.Background(), done: make(chan struct{})} }

func (c *c06Ctx) Done() <-chan struct{}         { return c.done }
func (c *c06Ctx) Deadline() (time.Time, bool) { return time.Time{}, false }
func (c *c06Ctx) Err() error {
	select {
	case <-c.done:
		return context.DeadlineExceeded
	default:
		return nil
	}
}
func (c *c06Ctx) fire() { c.once.Do(func() { c.fired.Store(true); close(c.done) }) }

// ---------------------------------------------------------------------------------------------- metrics hook

// c06Hist receives Getter.metrics.recordAttempts: called exactly once per executeRequest call, right before it returns.
type c06Hist struct {
	embedded.Int64Histogram
	fn func(attempts int64, success bool)
}

func (h *c06Hist) Record(_ context.Context, incr int64, opts ...metric.RecordOption) {
	cfg := metric.NewRecordConfig(opts)
	set := cfg.Attributes()
	v, _ := set.Value("success")
	h.fn(incr, v.AsBool())
}
func (h *c06Hist) Enabled(context.Context) bool { return true }

// ---------------------------------------------------------------------------------------------- captured real servers

// c06CaptureHost lets a real shrex.Server register its handlers without installing them on the host: the scripted
// dispatcher decides per request whether the real handler runs.
type c06CaptureHost struct {
	host.Host
	mu       sync.Mutex
	handlers map[protocol.ID]network.StreamHandler
}

func (h *c06CaptureHost) SetStreamHandler(p protocol.ID, fn network.StreamHandler) {
	h.mu.Lock()
	defer h.mu.Unlock()
	h.handlers[p] = fn
}
func (h *c06CaptureHost) RemoveStreamHandler(p protocol.ID) {
	h.mu.Lock()
	defer h.mu.Unlock()
	delete(h.handlers, p)
}
func (h *c06CaptureHost) handler(p protocol.ID) network.StreamHandler {
	h.mu.Lock()
	defer h.mu.Unlock()
	return h.handlers[p]
}

func c06RealServer(t testing.TB, h host.Host, st store.AccessorGetter) *c06CaptureHost {
	ch := &c06CaptureHost{Host: h, handlers: map[protocol.ID]network.StreamHandler{}}
	params := shrex.DefaultServerParameters()
	params.WithNetworkID(c06NetworkID)
	srv, err := shrex.NewServer(params, ch, st)
	if err != nil {
		t.Fatal(err)
	}
	if err := srv.Start(context.Background()); err != nil {
		t.Fatal(err)
	}
	return ch
}

// c06ReplayStream feeds the already consumed request bytes to a real handler and records what it writes.
type c06ReplayStream struct {
	network.Stream
	r     *bytes.Reader
	wrote bytes.Buffer
}

func (s *c06ReplayStream) Read(p []byte) (int, error) { return s.r.Read(p) }
func (s *c06ReplayStream) CloseRead() error           { return nil }
func (s *c06ReplayStream) Write(p []byte) (int, error) {
	s.wrote.Write(p)
	return s.Stream.Write(p)
}

// ---------------------------------------------------------------------------------------------- scripted peers

// c06Beh is one scripted peer behaviour (one attempt of one request).
type c06Beh struct {
	Kind    string `json:"kind"`              // honest | other | payload | status | reset | ratelimited | timeout | deadline
	Fam     string `json:"fam,omitempty"`     // family of a crafted payload (evidence / replay readability)
	Status  int    `json:"status,omitempty"`  // for Kind == status
	Payload []byte `json:"payload,omitempty"` // bytes after the OK status for Kind == payload
}

// c06Attempt is what the dispatcher observed for one incoming stream.
type c06Attempt struct {
	Key     string
	Idx     int // index in the key's script
	Peer    int // index of the serving host
	Beh     c06Beh
	Wrote   []byte // everything the server side wrote (status message + payload) for honest/other
	Elapsed time.Duration
	WErr    bool // a write/close error was seen while answering (the client had gone)
}

// c06Case is the per-request state shared by all scripted peers.
type c06Case struct {
	mu       sync.Mutex
	scripts  map[string][]c06Beh // request bytes (hex) -> behaviours, consumed per attempt
	next     map[string]int
	attempts []c06Attempt
	overflow int
	ctx      *c06Ctx
	slots    int // number of executeRequest calls the Get method makes
	ended    int // executeRequest calls that returned + slots parked in a Deadline behaviour
	release  chan struct{}
	unknown  int
}

func (c *c06Case) terminal() {
	c.mu.Lock()
	c.ended++
	fire := c.ended >= c.slots
	c.mu.Unlock()
	if fire {
		c.ctx.fire()
	}
}

type c06Net struct {
	t        testing.TB
	net      mocknet.Mocknet
	client   host.Host
	servers  []host.Host
	idx      map[libpeer.ID]int
	honest   []*c06CaptureHost // real server over the store holding the committed squares, one per server host
	dishon   []*c06CaptureHost // real server over the store holding the other squares
	cur      atomic.Pointer[c06Case]
	storeA   *store.Store
	storeB   *store.Store
	protoOf  map[protocol.ID]string
	inflight sync.WaitGroup
}

func c06Protocols() map[protocol.ID]string {
	out := map[protocol.ID]string{}
	for _, name := range []string{(&shwap.SampleID{}).Name(), (&shwap.RowID{}).Name(), (&shwap.EdsID{}).Name(),
		(&shwap.NamespaceDataID{}).Name(), (&shwap.RangeNamespaceDataID{}).Name()} {
		out[shrex.ProtocolID(c06NetworkID, name)] = name
	}
	return out
}

func newC06Net(t testing.TB, nServers int, squares []*c06Square) *c06Net {
	mn, err := mocknet.FullMeshConnected(nServers + 1)
	if err != nil {
		t.Fatal(err)
	}
	n := &c06Net{t: t, net: mn, client: mn.Hosts()[0], servers: mn.Hosts()[1:], idx: map[libpeer.ID]int{}, protoOf: c06Protocols()}
	n.storeA, err = store.NewStore(store.DefaultParameters(), t.TempDir())
	if err != nil {
		t.Fatal(err)
	}
	n.storeB, err = store.NewStore(store.DefaultParameters(), t.TempDir())
	if err != nil {
		t.Fatal(err)
	}
	ctx := context.Background()
	for _, sq := range squares {
		if err := n.storeA.PutODSQ4(ctx, sq.roots, sq.height, sq.q); err != nil {
			t.Fatal(err)
		}
		oroots, err := share.NewAxisRoots(sq.other)
		if err != nil {
			t.Fatal(err)
		}
		if err := n.storeB.PutODSQ4(ctx, oroots, sq.height, sq.other); err != nil {
			t.Fatal(err)
		}
	}
	for i, h := range n.servers {
		n.idx[h.ID()] = i
		n.honest = append(n.honest, c06RealServer(t, h, n.storeA))
		n.dishon = append(n.dishon, c06RealServer(t, h, n.storeB))
		for p := range n.protoOf {
			i, p := i, p
			h.SetStreamHandler(p, func(s network.Stream) { n.dispatch(i, p, s) })
		}
	}
	return n
}

func c06WriteStatus(w io.Writer, st shrexpb.Status) error {
	_, err := serde.Write(w, &shrexpb.Response{Status: st})
	return err
}

// dispatch is the stream handler of every server host for every shrex protocol.
func (n *c06Net) dispatch(peer int, p protocol.ID, s network.Stream) {
	n.inflight.Add(1)
	defer n.inflight.Done()
	start := time.Now()
	c := n.cur.Load()
	_ = s.SetReadDeadline(time.Now().Add(20 * time.Second))
	req, err := io.ReadAll(s) // the client half-closes after the request
	if c == nil || err != nil {
		_ = s.Reset()
		return
	}
	key := fmt.Sprintf("%s:%x", n.protoOf[p], req)
	c.mu.Lock()
	script, ok := c.scripts[key]
	i := c.next[key]
	c.next[key] = i + 1
	var beh c06Beh
	switch {
	case !ok:
		c.unknown++
		beh = c06Beh{Kind: "deadline", Fam: "unknown-request"}
	case i >= len(script):
		// the getter keeps asking although the script said it would be done: park it and let the oracle judge the result
		c.overflow++
		beh = c06Beh{Kind: "deadline", Fam: "overflow"}
	default:
		beh = script[i]
	}
	c.mu.Unlock()

	att := c06Attempt{Key: key, Idx: i, Peer: peer, Beh: beh}
	fail := func(err error) {
		if err != nil {
			att.WErr = true
		}
	}
	switch beh.Kind {
	case "honest", "other":
		hs := n.honest[peer]
		if beh.Kind == "other" {
			hs = n.dishon[peer]
		}
		rs := &c06ReplayStream{Stream: s, r: bytes.NewReader(req)}
		hs.handler(p)(rs) // the real shrex.Server handler (with its recovery middleware), closes the stream itself
		att.Wrote = append([]byte(nil), rs.wrote.Bytes()...)
	case "payload":
		var buf bytes.Buffer
		_ = c06WriteStatus(&buf, shrexpb.Status_OK)
		buf.Write(beh.Payload)
		_, err := s.Write(buf.Bytes())
		fail(err)
		fail(s.Close())
		att.Wrote = buf.Bytes()
	case "status":
		fail(c06WriteStatus(s, shrexpb.Status(beh.Status)))
		fail(s.Close())
	case "reset":
		_ = s.Reset()
	case "closed":
		_ = s.Close() // orderly close without a status: the client reads EOF
	case "timeout":
		if beh.Payload != nil {
			// OK and the beginning of a payload, then silence: the client has received bytes when it gives up
			var buf bytes.Buffer
			_ = c06WriteStatus(&buf, shrexpb.Status_OK)
			buf.Write(beh.Payload)
			_, _ = s.Write(buf.Bytes())
		}
		<-c.release // the client gives up on its own (per-attempt timeout)
		_ = s.Reset()
	case "deadline":
		c.terminal()
		<-c.release
		_ = s.Reset()
	default:
		panic("c06: behaviour " + beh.Kind)
	}
	att.Elapsed = time.Since(start)
	c.mu.Lock()
	c.attempts = append(c.attempts, att)
	c.mu.Unlock()
}

// ---------------------------------------------------------------------------------------------- client side

// c06ClientHost scripts what only the client side of a stream can observe: a reset carrying the rate-limit code
// (mocknet drops stream error codes, so the code is injected where libp2p would surface it).
type c06ClientHost struct {
	host.Host
	n *c06Net
}

func (h *c06ClientHost) NewStream(ctx context.Context, p libpeer.ID, pids ...protocol.ID) (network.Stream, error) {
	c := h.n.cur.Load()
	if c != nil && len(pids) == 1 {
		c.mu.Lock()
		var hit bool
		var key string
		prefix := h.n.protoOf[pids[0]] + ":"
		for k, sc := range c.scripts {
			// only single-request kinds carry "ratelimited" (one key per case), so the key is unambiguous
			if len(k) >= len(prefix) && k[:len(prefix)] == prefix && c.next[k] < len(sc) && sc[c.next[k]].Kind == "ratelimited" {
				hit, key = true, k
			}
		}
		if hit {
			i := c.next[key]
			c.next[key] = i + 1
			c.attempts = append(c.attempts, c06Attempt{Key: key, Idx: i, Peer: h.n.idx[p], Beh: c.scripts[key][i]})
		}
		c.mu.Unlock()
		if hit {
			return nil, fmt.Errorf("stream reset: %w", &network.StreamError{ErrorCode: network.StreamRateLimited, Remote: true})
		}
	}
	return h.Host.NewStream(ctx, p, pids...)
}

// c06Getter builds a fresh peer manager pair and Getter for one case.
type c06GetterEnv struct {
	getter *Getter
	gater  *conngater.BasicConnectionGater
	full   *peers.Manager
}

func (n *c06Net) newGetter(c *c06Case, blacklisting bool, attemptTimeout time.Duration) *c06GetterEnv {
	mk := func() (*peers.Manager, *conngater.BasicConnectionGater) {
		gater, err := conngater.NewBasicConnectionGater(ds_sync.MutexWrap(datastore.NewMapDatastore()))
		if err != nil {
			n.t.Fatal(err)
		}
		params := *peers.DefaultParameters()
		params.PeerCooldown = time.Hour // a peer put on cooldown stays there for the rest of the case
		params.EnableBlackListing = blacklisting
		m, err := peers.NewManager(params, n.client, gater, "verif")
		if err != nil {
			n.t.Fatal(err)
		}
		return m, gater
	}
	full, gater := mk()
	arch, _ := mk()
	for _, h := range n.servers {
		full.UpdateNodePool(h.ID(), true)
	}
	cp := shrex.DefaultClientParameters()
	cp.WithNetworkID(c06NetworkID)
	client, err := shrex.NewClient(cp, &c06ClientHost{Host: n.client, n: n})
	if err != nil {
		n.t.Fatal(err)
	}
	g := NewGetter(client, full, arch, availability.RequestWindow)
	if err := g.Start(context.Background()); err != nil {
		n.t.Fatal(err)
	}
	g.minRequestTimeout = attemptTimeout
	g.metrics = &metrics{requestAttempt: &c06Hist{fn: func(int64, bool) { c.terminal() }}}
	return &c06GetterEnv{getter: g, gater: gater, full: full}
}

func (e *c06GetterEnv) blocked() map[libpeer.ID]bool {
	out := map[libpeer.ID]bool{}
	for _, p := range e.gater.ListBlockedPeers() {
		out[p] = true
	}
	return out
}

var errC06Hang = errors.New("c06: call did not return")

// c06Run runs f (one Get call) under the case's event context with a watchdog.
func (n *c06Net) run(c *c06Case, f func(ctx context.Context)) (hang bool) {
	n.cur.Store(c)
	done := make(chan struct{})
	go func() {
		defer close(done)
		f(c.ctx)
	}()
	select {
	case <-done:
	case <-time.After(40 * time.Second):
		// nothing ended the call: end the context ourselves, then it has to return
		c.ctx.fire()
		select {
		case <-done:
			hang = false
			c.mu.Lock()
			c.overflow++
			c.mu.Unlock()
		case <-time.After(20 * time.Second):
			hang = true
		}
	}
	c.ctx.fire()
	close(c.release)
	n.inflight.Wait()
	n.cur.Store(nil)
	return hang
}

//go:build verif

package shrex_getter //nolint:stylecheck

// C06 correspondence + oracle harness (see /verif/DESIGN.md, C06).
//
// L2: the real shrex Client + Getter run over a libp2p mocknet against scripted peers (real shrex.Server for the honest
//     and the "other square" answers, crafted status / payload / reset / silence otherwise).  Every scripted payload is
//     classified by decoding and verifying it independently; the script with these classes and the observed result
//     (returned container, error class, requests issued, peers blocked) is written as a Coq case for
//     CN.Getter.RetryCases.mismatches.  Bitswap getter and cascade: zz_verif_c06_bitswap_test.go.
// L3: every non-empty element of every returned value (also next to an error) must equal the committed data; an honest
//     answer that was delivered must be accepted whatever came before; not-found must surface as not-found; no panic, no
//     hang; an honest peer is never reported for blacklisting.

import (
	"bytes"
	"context"
	"crypto/sha256"
	"errors"
	"fmt"
	"io"
	"reflect"
	"sort"
	"strings"
	"testing"
	"time"

	"github.com/celestiaorg/go-libp2p-messenger/serde"
	libshare "github.com/celestiaorg/go-square/v4/share"

	"github.com/celestiaorg/celestia-node/share/eds"
	"github.com/celestiaorg/celestia-node/share/shwap"
	"github.com/celestiaorg/celestia-node/store"
	shrexpb "github.com/celestiaorg/celestia-node/share/shwap/p2p/shrex/pb"
	zv "github.com/celestiaorg/celestia-node/zzverif"
)

const c06Header = `From Coq Require Import List Bool Arith NArith BinNat.
From CN Require Import Getter.Retry Getter.RetryCases.
Import ListNotations.
Open Scope N_scope.
`

// c06Req is one request of a case.
type c06Req struct {
	Kind string `json:"kind"` // sample | row | eds | nd | range
	Sq   int    `json:"sq"`
	Row  int    `json:"row,omitempty"`
	Col  int    `json:"col,omitempty"`
	Ns   []byte `json:"ns,omitempty"`
	From int    `json:"from,omitempty"`
	To   int    `json:"to,omitempty"`
}

type c06idr interface {
	MarshalBinary() ([]byte, error)
	Name() string
	ResponseReader(context.Context, shwap.Accessor) (io.Reader, error)
}

func (rq c06Req) id(sq *c06Square) (c06idr, error) {
	w := 2 * sq.k
	switch rq.Kind {
	case "sample":
		id, err := shwap.NewSampleID(sq.height, shwap.SampleCoords{Row: rq.Row, Col: rq.Col}, w)
		return id, err
	case "row":
		id, err := shwap.NewRowID(sq.height, rq.Row, w)
		return id, err
	case "eds":
		id, err := shwap.NewEdsID(sq.height)
		return id, err
	case "nd":
		ns, err := libshare.NewNamespaceFromBytes(rq.Ns)
		if err != nil {
			return nil, err
		}
		id, err := shwap.NewNamespaceDataID(sq.height, ns)
		return id, err
	case "range":
		eid, err := shwap.NewEdsID(sq.height)
		if err != nil {
			return nil, err
		}
		id, err := shwap.NewRangeNamespaceDataID(eid, rq.From, rq.To, sq.k)
		return id, err
	}
	return nil, fmt.Errorf("kind %q", rq.Kind)
}

func (rq c06Req) key(sq *c06Square) string {
	id, err := rq.id(sq)
	if err != nil {
		panic(err)
	}
	b, _ := id.MarshalBinary()
	return fmt.Sprintf("%s:%x", id.Name(), b)
}

// honestPayload is what an honest server holding accessor acc answers after the OK status.
func (rq c06Req) honestPayload(sq *c06Square, acc *eds.Rsmt2D) ([]byte, error) {
	id, err := rq.id(sq)
	if err != nil {
		return nil, err
	}
	r, err := id.ResponseReader(context.Background(), acc)
	if err != nil {
		return nil, err
	}
	return io.ReadAll(r)
}

// c06Class is the harness' own judgement of a payload for a request.
type c06Class struct {
	Decodes bool   `json:"decodes"`
	Zeroed  bool   `json:"zeroed,omitempty"` // a failed decode left the zero value (instead of the previous content)
	Empty   bool   `json:"empty,omitempty"`
	Ok      bool   `json:"ok,omitempty"` // the container's own Verify accepts it for the request
	Canon   string `json:"-"`            // canonical re-encoding (identifies the container)
}

func c06Hash(b []byte) string { h := sha256.Sum256(b); return fmt.Sprintf("%x", h[:12]) }

func c06CanonSample(s shwap.Sample) string {
	if s.IsEmpty() {
		return ""
	}
	var buf bytes.Buffer
	_, _ = s.WriteTo(&buf)
	return "S" + c06Hash(buf.Bytes())
}
func c06CanonRow(r shwap.Row) string {
	if r.IsEmpty() {
		return ""
	}
	shs, err := r.Shares() // both halves: a row the getter verified has been extended in place
	if err != nil {
		b, _ := r.ToProto().Marshal()
		return "Rraw" + c06Hash(b)
	}
	return "R" + c06Hash(bytes.Join(libshare.ToBytes(shs), nil))
}
func c06CanonND(nd shwap.NamespaceData) string {
	if nd.IsEmpty() {
		return ""
	}
	var buf bytes.Buffer
	for _, r := range nd {
		b, _ := r.ToProto().Marshal()
		fmt.Fprintf(&buf, "%d:", len(b))
		buf.Write(b)
	}
	return "N" + c06Hash(buf.Bytes())
}
func c06CanonRange(rd shwap.RangeNamespaceData) string {
	if rd.IsEmpty() {
		return ""
	}
	b, _ := rd.ToProto().Marshal()
	return "G" + c06Hash(b)
}

func c06Verify(rq c06Req, sq *c06Square, v any) error {
	switch x := v.(type) {
	case shwap.Sample:
		return x.Verify(sq.roots, rq.Row, rq.Col)
	case shwap.Row:
		return x.Verify(sq.roots, rq.Row)
	case shwap.NamespaceData:
		ns, _ := libshare.NewNamespaceFromBytes(rq.Ns)
		return x.Verify(sq.roots, ns)
	case shwap.RangeNamespaceData:
		from, err := shwap.SampleCoordsFrom1DIndex(rq.From, sq.k)
		if err != nil {
			return err
		}
		to, err := shwap.SampleCoordsFrom1DIndex(rq.To-1, sq.k)
		if err != nil {
			return err
		}
		return x.VerifyInclusion(from, to, sq.k, sq.roots.RowRoots[from.Row:to.Row+1])
	}
	return errors.New("type")
}

// classify decodes payload the way the client does (container ReadFrom), into a container pre-filled with prev so that a
// failing decode shows whether it keeps or zeroes the receiver.
func (rq c06Req) classify(sq *c06Square, payload []byte) (cl c06Class) {
	p := zv.Recover(func() {
		rd := bytes.NewReader(payload)
		switch rq.Kind {
		case "sample":
			s, _ := sq.acc.Sample(context.Background(), shwap.SampleCoords{Row: rq.Row, Col: rq.Col})
			if _, err := s.ReadFrom(rd); err != nil {
				cl.Zeroed = s.IsEmpty()
				return
			}
			cl.Decodes, cl.Empty, cl.Canon = true, s.IsEmpty(), c06CanonSample(s)
			cl.Ok = !cl.Empty && c06Verify(rq, sq, s) == nil
		case "row":
			half, _ := sq.acc.AxisHalf(context.Background(), 0, rq.Row)
			r := half.ToRow()
			if _, err := r.ReadFrom(rd); err != nil {
				cl.Zeroed = r.IsEmpty()
				return
			}
			cl.Decodes, cl.Empty = true, r.IsEmpty()
			cl.Ok = !cl.Empty && c06Verify(rq, sq, r) == nil
			cl.Canon = c06CanonRow(r)
			if !cl.Ok && !cl.Empty {
				b, _ := r.ToProto().Marshal()
				cl.Canon = "Rraw" + c06Hash(b)
			}
		case "nd":
			var nd shwap.NamespaceData
			if _, err := nd.ReadFrom(rd); err != nil {
				return
			}
			cl.Decodes, cl.Empty, cl.Canon = true, nd.IsEmpty(), c06CanonND(nd)
			cl.Ok = !cl.Empty && c06Verify(rq, sq, nd) == nil
		case "range":
			var rg shwap.RangeNamespaceData
			if _, err := rg.ReadFrom(rd); err != nil {
				return
			}
			cl.Decodes, cl.Empty, cl.Canon = true, rg.IsEmpty(), c06CanonRange(rg)
			cl.Ok = !cl.Empty && c06Verify(rq, sq, rg) == nil
		case "eds":
			// the client copies the stream into a byte buffer; every byte string "decodes"
			cl.Decodes, cl.Empty = true, len(payload) == 0
			if !cl.Empty {
				acc, err := eds.ReadAccessor(context.Background(), bytes.NewReader(payload), sq.roots)
				cl.Ok = err == nil
				if cl.Ok {
					cl.Canon = "E" + c06Hash(bytes.Join(acc.FlattenedODS(), nil))
				} else {
					cl.Canon = "Eraw" + c06Hash(payload)
				}
			}
		}
	})
	if p != "" {
		return c06Class{}
	}
	return cl
}

// ------------------------------------------------------------------------------------------------ payload families

func c06CutMessages(b []byte) (msgs [][]byte) {
	// split a stream of varint-delimited messages; nil if it is not one
	for len(b) > 0 {
		l, n := 0, 0
		for shift := 0; ; shift += 7 {
			if n >= len(b) || shift > 28 {
				return nil
			}
			c := b[n]
			n++
			l |= int(c&0x7f) << shift
			if c < 0x80 {
				break
			}
		}
		if n+l > len(b) {
			return nil
		}
		msgs = append(msgs, b[:n+l])
		b = b[n+l:]
	}
	return msgs
}

// c06Forge produces a dishonest payload of the given family for rq; ok=false when the family does not apply.
func c06Forge(rng *zv.Rand, sq *c06Square, rq c06Req, fam string) ([]byte, bool) {
	honest, err := rq.honestPayload(sq, &sq.acc)
	if err != nil {
		return nil, false
	}
	w := 2 * sq.k
	switch fam {
	case "wrongcoords": // an honest answer to a neighbouring request of the same square
		alt := rq
		switch rq.Kind {
		case "sample":
			if rng.Bool() {
				alt.Row = (rq.Row + 1 + rng.Intn(w-1)) % w
			} else {
				alt.Col = (rq.Col + 1 + rng.Intn(w-1)) % w
			}
		case "row":
			alt.Row = (rq.Row + 1 + rng.Intn(w-1)) % w
		case "nd":
			for _, r := range sq.runs {
				if !bytes.Equal(r.ns.Bytes(), rq.Ns) {
					alt.Ns = r.ns.Bytes()
				}
			}
			if bytes.Equal(alt.Ns, rq.Ns) {
				return nil, false
			}
		case "range":
			var run c06Run
			for _, r := range sq.runs {
				if r.from <= rq.From && rq.To <= r.to {
					run = r
				}
			}
			switch {
			case rq.From > run.from:
				alt.From, alt.To = rq.From-1, rq.To-1
			case rq.To < run.to:
				alt.From, alt.To = rq.From+1, rq.To+1
			default:
				return nil, false
			}
		default:
			return nil, false
		}
		p, err := alt.honestPayload(sq, &sq.acc)
		return p, err == nil
	case "othersquare-crafted":
		p, err := rq.honestPayload(sq, &sq.oacc)
		return p, err == nil
	case "cutrow": // cut at a message boundary: one row message less (namespace data, ranges); one share less (eds)
		if rq.Kind == "eds" {
			if len(honest) <= libshare.ShareSize {
				return nil, false
			}
			return honest[:len(honest)-libshare.ShareSize], true
		}
		msgs := c06CutMessages(honest)
		if len(msgs) < 2 || (rq.Kind != "nd" && rq.Kind != "range") {
			return nil, false
		}
		return bytes.Join(msgs[:len(msgs)-1], nil), true
	case "cutbytes": // cut inside a message
		if len(honest) < 10 {
			return nil, false
		}
		return honest[:len(honest)-1-rng.Intn(len(honest)/2)], true
	case "extend": // more than was asked
		switch rq.Kind {
		case "nd":
			msgs := c06CutMessages(honest)
			if len(msgs) == 0 {
				return nil, false
			}
			return append(append([]byte{}, honest...), msgs[len(msgs)-1]...), true
		case "range":
			// a range that runs on into the next row: two row messages, the second with a proof
			var run c06Run
			for _, r := range sq.runs {
				if r.from <= rq.From && rq.To <= r.to {
					run = r
				}
			}
			rowEnd := (rq.From/sq.k + 1) * sq.k
			if rq.To > rowEnd || run.to <= rowEnd {
				return nil, false
			}
			alt := rq
			alt.To = rowEnd + 1 + rng.Intn(min(sq.k, run.to-rowEnd))
			if alt.To%sq.k == 0 {
				alt.To-- // keep the last row incomplete so that it carries a proof
			}
			if alt.To <= rowEnd {
				return nil, false
			}
			p, err := alt.honestPayload(sq, &sq.acc)
			return p, err == nil
		default:
			return append(append([]byte{}, honest...), rng.Bytes(1+rng.Intn(40))...), true
		}
	case "mutate": // one byte flipped somewhere
		if len(honest) == 0 {
			return nil, false
		}
		p := append([]byte{}, honest...)
		p[rng.Intn(len(p))] ^= byte(1 << rng.Intn(8))
		return p, true
	case "mutshare": // a share body byte flipped: still decodes
		if len(honest) < 300 {
			return nil, false
		}
		p := append([]byte{}, honest...)
		p[len(p)/2+rng.Intn(100)] ^= 0x40
		return p, true
	case "emptyok":
		return []byte{}, true
	case "garbage":
		return rng.Bytes(1 + rng.Intn(200)), true
	}
	return nil, false
}

var c06Families = []string{"wrongcoords", "othersquare-crafted", "cutrow", "cutbytes", "extend", "mutate", "mutshare", "emptyok", "garbage"}

// c06BadBeh draws one non-terminal behaviour.
func c06BadBeh(rng *zv.Rand, sq *c06Square, rq c06Req, allowTimeout, allowRate bool) c06Beh {
	for {
		switch x := rng.Intn(100); {
		case x < 12:
			return c06Beh{Kind: "other"}
		case x < 50:
			fam := zv.Pick(rng, c06Families)
			if p, ok := c06Forge(rng, sq, rq, fam); ok {
				return c06Beh{Kind: "payload", Fam: fam, Payload: p}
			}
		case x < 64:
			return c06Beh{Kind: "status", Status: int(shrexpb.Status_NOT_FOUND)}
		case x < 72:
			return c06Beh{Kind: "status", Status: int(shrexpb.Status_INTERNAL)}
		case x < 77:
			return c06Beh{Kind: "status", Status: zv.Pick(rng, []int{0, 4, 77})}
		case x < 85:
			return c06Beh{Kind: "reset"}
		case x < 89:
			return c06Beh{Kind: "closed"}
		case x < 94:
			if allowRate {
				return c06Beh{Kind: "ratelimited"}
			}
		default:
			if allowTimeout {
				if rng.Bool() {
					// the beginning of an answer, then silence
					if p, err := rq.honestPayload(sq, zv.Pick(rng, []*eds.Rsmt2D{&sq.acc, &sq.oacc})); err == nil && len(p) > 8 {
						return c06Beh{Kind: "timeout", Fam: "stalled-payload", Payload: p[:1+rng.Intn(len(p)-1)]}
					}
				}
				return c06Beh{Kind: "timeout"}
			}
		}
	}
}

// ------------------------------------------------------------------------------------------------ case plumbing

type c06Spec struct {
	Reqs       []c06Req   `json:"reqs"`    // one for single-container getters, several for GetSamples
	Scripts    [][]c06Beh `json:"scripts"` // per request
	Blacklist  bool       `json:"blacklisting"`
	PreExpired bool       `json:"pre_expired,omitempty"` // the caller's context is already done
	Tag        string     `json:"tag,omitempty"`
}

type c06SlotObs struct {
	Pid      int   `json:"pid"` // 0 = empty
	Attempts int   `json:"attempts"`
	Black    []int `json:"black"`
}

type c06Obs struct {
	Slots    []c06SlotObs `json:"slots"`
	Err      string       `json:"err,omitempty"`
	IsErr    bool         `json:"is_err"`
	NotFound bool         `json:"notfound"`
	Ctx      bool         `json:"ctx"`
	Panic    string       `json:"panic,omitempty"`
	Hang     bool         `json:"hang,omitempty"`
}

type c06Result struct {
	spec     c06Spec
	obs      c06Obs
	classes  [][]c06Class // per request, per script entry
	pids     map[string]int
	returned []any // returned containers per request (nil = empty)
	tainted  bool
	overflow int
	attempts []c06Attempt
}

func (h *c06H) usesTimeout(sp c06Spec) bool {
	for _, sc := range sp.Scripts {
		for _, b := range sc {
			if b.Kind == "timeout" {
				return true
			}
		}
	}
	return false
}

type c06H struct {
	t       *testing.T
	r       *zv.Run
	g       *zv.Group
	net     *c06Net
	squares []*c06Square
	nRun    int

	emptyStore *store.Store
}

func c06StripStatus(wrote []byte) (payload []byte, ok bool) {
	rd := bytes.NewReader(wrote)
	var st shrexpb.Response
	if _, err := serde.Read(rd, &st); err != nil || st.Status != shrexpb.Status_OK {
		return nil, false
	}
	rest, _ := io.ReadAll(rd)
	return rest, true
}

// runCase executes one spec against the real getter.
func (h *c06H) runCase(sp c06Spec) *c06Result {
	res := &c06Result{spec: sp, pids: map[string]int{}}
	sq := h.squares[sp.Reqs[0].Sq]
	c := &c06Case{scripts: map[string][]c06Beh{}, next: map[string]int{}, ctx: newC06Ctx(), slots: len(sp.Reqs), release: make(chan struct{})}
	keys := make([]string, len(sp.Reqs))
	for i, rq := range sp.Reqs {
		keys[i] = rq.key(sq)
		c.scripts[keys[i]] = sp.Scripts[i]
	}
	attemptTimeout := time.Hour
	if h.usesTimeout(sp) {
		attemptTimeout = 400 * time.Millisecond
	}
	h.nRun++
	if h.nRun%40 == 0 {
		// fresh real servers: their per-IP rate limiter must never be what a case observes
		for i, hs := range h.net.servers {
			h.net.honest[i] = c06RealServer(h.t, hs, h.net.storeA)
			h.net.dishon[i] = c06RealServer(h.t, hs, h.net.storeB)
		}
	}
	env := h.net.newGetter(c, sp.Blacklist, attemptTimeout)
	if sp.PreExpired {
		c.ctx.fire()
	}
	var (
		err error
		out []any
	)
	res.obs.Panic = ""
	hang := h.net.run(c, func(ctx context.Context) {
		res.obs.Panic = zv.Recover(func() {
			rq := sp.Reqs[0]
			switch rq.Kind {
			case "sample":
				coords := make([]shwap.SampleCoords, len(sp.Reqs))
				for i, q := range sp.Reqs {
					coords[i] = shwap.SampleCoords{Row: q.Row, Col: q.Col}
				}
				var smpls []shwap.Sample
				smpls, err = env.getter.GetSamples(ctx, sq.eh, coords)
				out = make([]any, len(sp.Reqs))
				for i := range smpls {
					if i < len(out) && !smpls[i].IsEmpty() {
						out[i] = smpls[i]
					}
				}
			case "row":
				var v shwap.Row
				v, err = env.getter.GetRow(ctx, sq.eh, rq.Row)
				out = []any{nil}
				if !v.IsEmpty() {
					out[0] = v
				}
			case "eds":
				v, e := env.getter.GetEDS(ctx, sq.eh)
				err = e
				out = []any{nil}
				if v != nil {
					out[0] = bytes.Join(v.FlattenedODS(), nil)
				}
			case "nd":
				ns, _ := libshare.NewNamespaceFromBytes(rq.Ns)
				var v shwap.NamespaceData
				v, err = env.getter.GetNamespaceData(ctx, sq.eh, ns)
				out = []any{nil}
				if !v.IsEmpty() {
					out[0] = v
				}
			case "range":
				var v shwap.RangeNamespaceData
				v, err = env.getter.GetRangeNamespaceData(ctx, sq.eh, rq.From, rq.To)
				out = []any{nil}
				if !v.IsEmpty() {
					out[0] = v
				}
			}
		})
	})
	_ = env.getter.Stop(context.Background())
	res.obs.Hang = hang
	res.returned = out
	if res.returned == nil {
		res.returned = make([]any, len(sp.Reqs))
	}
	c.mu.Lock()
	res.attempts = append(res.attempts, c.attempts...)
	res.overflow = c.overflow + c.unknown
	c.mu.Unlock()

	// classes: what was really written where the attempt happened, the prediction otherwise
	blocked := env.blocked()
	res.classes = make([][]c06Class, len(sp.Reqs))
	res.obs.Slots = make([]c06SlotObs, len(sp.Reqs))
	pid := func(canon string) int {
		if canon == "" {
			return 0
		}
		if p, ok := res.pids[canon]; ok {
			return p
		}
		res.pids[canon] = len(res.pids) + 1
		return res.pids[canon]
	}
	for i, rq := range sp.Reqs {
		res.classes[i] = make([]c06Class, len(sp.Scripts[i]))
		byIdx := map[int]c06Attempt{}
		for _, a := range res.attempts {
			if a.Key == keys[i] {
				byIdx[a.Idx] = a
				res.obs.Slots[i].Attempts++
				if a.Idx < len(sp.Scripts[i]) && blocked[h.net.servers[a.Peer].ID()] {
					res.obs.Slots[i].Black = append(res.obs.Slots[i].Black, a.Idx)
				}
				if a.Beh.Kind != "timeout" && a.Beh.Kind != "deadline" && (a.Elapsed > attemptTimeout/3 || a.WErr) {
					res.tainted = true
				}
			}
		}
		sort.Ints(res.obs.Slots[i].Black)
		for j, b := range sp.Scripts[i] {
			var payload []byte
			have := false
			switch b.Kind {
			case "honest", "other":
				if a, ok := byIdx[j]; ok && a.Wrote != nil {
					payload, have = c06StripStatus(a.Wrote)
				}
				if !have {
					acc := &sq.acc
					if b.Kind == "other" {
						acc = &sq.oacc
					}
					p, err := rq.honestPayload(sq, acc)
					payload, have = p, err == nil
				}
			case "payload":
				payload, have = b.Payload, true
			}
			if have {
				res.classes[i][j] = rq.classify(sq, payload)
				if res.classes[i][j].Decodes {
					pid(res.classes[i][j].Canon)
				}
			}
		}
		// the returned container
		switch v := res.returned[i].(type) {
		case nil:
		case shwap.Sample:
			res.obs.Slots[i].Pid = c06Lookup(res.pids, c06CanonSample(v))
		case shwap.Row:
			res.obs.Slots[i].Pid = c06Lookup(res.pids, c06CanonRow(v))
		case shwap.NamespaceData:
			res.obs.Slots[i].Pid = c06Lookup(res.pids, c06CanonND(v))
		case shwap.RangeNamespaceData:
			res.obs.Slots[i].Pid = c06Lookup(res.pids, c06CanonRange(v))
		case []byte:
			res.obs.Slots[i].Pid = c06Lookup(res.pids, "E"+c06Hash(v))
		}
	}
	if err != nil {
		res.obs.IsErr = true
		res.obs.Err = err.Error()
		if len(res.obs.Err) > 300 {
			res.obs.Err = res.obs.Err[:300]
		}
		res.obs.NotFound = errors.Is(err, shwap.ErrNotFound)
		res.obs.Ctx = errors.Is(err, context.DeadlineExceeded) || errors.Is(err, context.Canceled)
	}
	return res
}

func c06Lookup(pids map[string]int, canon string) int {
	if canon == "" {
		return 0
	}
	if p, ok := pids[canon]; ok {
		return p
	}
	return 9999 // a container no peer sent
}

// ------------------------------------------------------------------------------------------------ Coq emission

func c06CoqBeh(b c06Beh, cl c06Class, pids map[string]int) string {
	switch b.Kind {
	case "honest", "other", "payload":
		if !cl.Decodes {
			if cl.Zeroed {
				return "cUZ"
			}
			return "cUK"
		}
		if cl.Empty {
			return "cAE"
		}
		return fmt.Sprintf("(cA %d %s)", pids[cl.Canon], zv.Bool(cl.Ok))
	case "status":
		switch shrexpb.Status(b.Status) {
		case shrexpb.Status_NOT_FOUND:
			return "cNF"
		case shrexpb.Status_INTERNAL:
			return "cIN"
		case shrexpb.Status_OK:
			return "cUK"
		}
		return "cBS"
	case "reset", "closed":
		return "cRS"
	case "ratelimited":
		return "cRL"
	case "timeout":
		return "cTO"
	case "deadline":
		return "cDL"
	}
	panic("beh " + b.Kind)
}

func c06CoqScript(sc []c06Beh, cls []c06Class, pids map[string]int) string {
	xs := make([]string, len(sc))
	for i := range sc {
		xs[i] = c06CoqBeh(sc[i], cls[i], pids)
	}
	return zv.List(xs)
}

func c06CoqOptN(p int) string {
	if p == 0 {
		return "None"
	}
	return fmt.Sprintf("(Some %d)", p)
}

func c06CoqNats(xs []int) string {
	s := make([]string, len(xs))
	for i, x := range xs {
		s[i] = zv.Nat(x)
	}
	return zv.List(s)
}

func (res *c06Result) coq() string {
	sp := res.spec
	if sp.Reqs[0].Kind != "sample" {
		o := res.obs
		s := o.Slots[0]
		obs := fmt.Sprintf("(mksobs %s %s %s %s %s %s)", c06CoqOptN(s.Pid), zv.Bool(o.IsErr), zv.Bool(o.NotFound), zv.Bool(o.Ctx), zv.Nat(s.Attempts), c06CoqNats(s.Black))
		script := c06CoqScript(sp.Scripts[0], res.classes[0], res.pids)
		if sp.PreExpired {
			script = "[]"
		}
		return zv.App("CSingle", zv.Bool(sp.Blacklist), script, obs)
	}
	var scripts, slots []string
	for i := range sp.Reqs {
		sc := c06CoqScript(sp.Scripts[i], res.classes[i], res.pids)
		if sp.PreExpired {
			sc = "[]"
		}
		scripts = append(scripts, sc)
		s := res.obs.Slots[i]
		slots = append(slots, zv.App("slot", c06CoqOptN(s.Pid), zv.Nat(s.Attempts), c06CoqNats(s.Black)))
	}
	obs := fmt.Sprintf("(mkmobs %s %s %s)", zv.List(slots), zv.Bool(res.obs.IsErr), zv.Bool(res.obs.NotFound))
	return zv.App("CSamples", zv.Bool(sp.Blacklist), zv.List(scripts), obs)
}

// ------------------------------------------------------------------------------------------------ L3 oracle

// truth reports whether a returned container holds exactly the committed data of the request.
func c06Truth(rq c06Req, sq *c06Square, v any) error {
	flat := func(shs []libshare.Share) [][]byte { return libshare.ToBytes(shs) }
	switch x := v.(type) {
	case shwap.Sample:
		if !bytes.Equal(x.ToBytes(), sq.q.GetCell(uint(rq.Row), uint(rq.Col))) {
			return errors.New("share differs from the committed share at the requested coordinates")
		}
		return x.Verify(sq.roots, rq.Row, rq.Col)
	case shwap.Row:
		shs, err := x.Shares()
		if err != nil {
			return err
		}
		if !reflect.DeepEqual(flat(shs), sq.q.Row(uint(rq.Row))) {
			return errors.New("row differs from the committed row")
		}
		return nil
	case shwap.NamespaceData:
		var want [][]byte
		for _, s := range sq.ods {
			if bytes.Equal(s.Namespace().Bytes(), rq.Ns) {
				want = append(want, s.ToBytes())
			}
		}
		got := flat(x.Flatten())
		if len(got) != len(want) || (len(want) > 0 && !reflect.DeepEqual(got, want)) {
			return errors.New("namespace data differs from the committed shares of the namespace")
		}
		return c06Verify(rq, sq, x)
	case shwap.RangeNamespaceData:
		want := flat(sq.ods[rq.From:rq.To])
		if !reflect.DeepEqual(flat(x.Flatten()), want) {
			return errors.New("range data differs from the committed shares of the range")
		}
		return c06Verify(rq, sq, x)
	case []byte:
		if !bytes.Equal(x, bytes.Join(sq.q.FlattenedODS(), nil)) {
			return errors.New("square differs from the committed square")
		}
		return nil
	}
	return errors.New("unknown container")
}

func (h *c06H) oracle(res *c06Result) {
	sp, o := res.spec, res.obs
	kind := sp.Reqs[0].Kind
	replay := map[string]any{"spec": sp, "observed": o}
	sq := h.squares[sp.Reqs[0].Sq]
	if o.Panic != "" {
		h.r.Violation("panic:"+kind, "getter panicked: "+o.Panic, replay)
	}
	if o.Hang {
		h.r.Violation("hang:"+kind, "getter did not return after its context ended", replay)
	}
	for i, v := range res.returned {
		if v == nil {
			continue
		}
		if err := c06Truth(sp.Reqs[i], sq, v); err != nil {
			where := "ok"
			if o.IsErr {
				where = "with-error"
			}
			h.r.Violation("unverified-returned:"+kind+":"+where,
				fmt.Sprintf("%s getter returned a non-empty element (request %d: %+v) that is not the committed data (%v); call error: %q", kind, i, sp.Reqs[i], err, o.Err), replay)
		}
	}
	// success means the data is there: a nil error with an empty element is a wrong answer (every request of the harness
	// addresses existing data)
	if !o.IsErr && o.Panic == "" {
		for i, v := range res.returned {
			if v == nil {
				h.r.Violation("empty-success:"+kind, fmt.Sprintf("%s getter returned no error and no data for request %d: %+v", kind, i, sp.Reqs[i]), replay)
			}
		}
	}
	// an honest answer that was delivered in full while the context was live must be accepted
	for i := range sp.Reqs {
		for _, a := range res.attempts {
			if a.Key != sp.Reqs[i].key(sq) || a.Beh.Kind != "honest" || a.WErr || res.tainted {
				continue
			}
			pl, ok := c06StripStatus(a.Wrote)
			if !ok {
				h.r.Violation("honest-server-refused:"+kind, "the real server did not answer OK for a stored block", replay)
				continue
			}
			if cl := sp.Reqs[i].classify(sq, pl); !cl.Ok {
				h.r.Violation("honest-answer-invalid:"+kind, "the real server's answer does not verify in a fresh container", replay)
				continue
			}
			if res.returned[i] == nil {
				var before []string
				for j := 0; j < a.Idx && j < len(sp.Scripts[i]); j++ {
					before = append(before, sp.Scripts[i][j].Kind+"/"+sp.Scripts[i][j].Fam)
				}
				h.r.Violation("honest-rejected:"+kind,
					fmt.Sprintf("an honest answer (attempt %d, after %v) was not accepted: request %+v returned nothing, error %q", a.Idx, before, sp.Reqs[i], o.Err), replay)
			}
		}
	}
	// not found is reported as not found
	if kind != "sample" && !sp.PreExpired {
		all, n := true, 0
		for _, a := range res.attempts {
			if a.Beh.Kind == "deadline" {
				continue
			}
			n++
			if a.Beh.Kind != "status" || a.Beh.Status != int(shrexpb.Status_NOT_FOUND) {
				all = false
			}
		}
		if all && n > 0 && (!o.IsErr || !o.NotFound) {
			h.r.Violation("notfound-misreported:"+kind, fmt.Sprintf("every peer answered NOT_FOUND but the getter returned err=%q", o.Err), replay)
		}
	}
	// an honest peer is never reported for blacklisting
	if sp.Blacklist {
		for i := range sp.Reqs {
			for _, j := range o.Slots[i].Black {
				if j < len(sp.Scripts[i]) && sp.Scripts[i][j].Kind == "honest" && !res.tainted {
					h.r.Violation("honest-peer-blacklisted:"+kind, "the peer that served the honest answer was blacklisted", replay)
				}
			}
		}
	}
}

// ------------------------------------------------------------------------------------------------ generators

func (h *c06H) randReq(rng *zv.Rand, kind string, sqi int) c06Req {
	sq := h.squares[sqi]
	w := 2 * sq.k
	rq := c06Req{Kind: kind, Sq: sqi}
	switch kind {
	case "sample":
		rq.Row, rq.Col = rng.Intn(w), rng.Intn(w)
	case "row":
		rq.Row = rng.Intn(w)
	case "nd":
		rq.Ns = zv.Pick(rng, sq.runs).ns.Bytes()
	case "range":
		run := zv.Pick(rng, sq.runs)
		rq.From = run.from + rng.Intn(run.to-run.from)
		rq.To = rq.From + 1 + rng.Intn(run.to-rq.From)
		if rng.Chance(50) {
			// keep it inside one row: the one-row answer is the one a stale last-row proof breaks
			if end := (rq.From/sq.k + 1) * sq.k; rq.To > end {
				rq.To = end
			}
		}
	}
	return rq
}

func (h *c06H) randScript(rng *zv.Rand, rq c06Req, maxBad int, allowTimeout, allowRate bool) []c06Beh {
	sq := h.squares[rq.Sq]
	var sc []c06Beh
	for i, n := 0, rng.Intn(maxBad+1); i < n; i++ {
		sc = append(sc, c06BadBeh(rng, sq, rq, allowTimeout, allowRate))
	}
	switch x := rng.Intn(100); {
	case x < 62:
		sc = append(sc, c06Beh{Kind: "honest"})
	case x < 70:
		// a correct answer from a peer that is not the real server: honest bytes (and, for samples/rows/squares, trailing junk)
		p, _ := rq.honestPayload(sq, &sq.acc)
		if rq.Kind == "sample" || rq.Kind == "row" || rq.Kind == "eds" {
			if rng.Bool() {
				p = append(append([]byte{}, p...), rng.Bytes(9)...)
			}
		}
		sc = append(sc, c06Beh{Kind: "payload", Fam: "correct", Payload: p})
	default:
		sc = append(sc, c06Beh{Kind: "deadline"})
	}
	if rng.Chance(25) { // behaviours nobody will see: the model has to stop where the code stops
		sc = append(sc, c06BadBeh(rng, sq, rq, false, false), c06Beh{Kind: "honest"})
	}
	return sc
}

func (h *c06H) record(res *c06Result) {
	sp := res.spec
	kind := sp.Reqs[0].Kind
	key := ""
	bad := 0
	for i, sc := range sp.Scripts {
		for j, b := range sc {
			h.r.Count("behaviour", kind+":"+b.Kind+c06If(b.Fam != "", "/"+b.Fam))
			if b.Kind == "payload" || b.Kind == "other" {
				cl := res.classes[i][j]
				h.r.Count("payload_class", fmt.Sprintf("%s:decodes=%v,empty=%v,ok=%v", kind, cl.Decodes, cl.Empty, cl.Ok))
			}
			if b.Kind != "honest" && b.Kind != "deadline" {
				bad++
			}
		}
	}
	if bad > 0 || sp.PreExpired {
		key = "faulty"
	}
	h.r.Count("request", kind)
	h.r.Count("outcome", kind+":"+c06If(res.obs.IsErr, "error", "ok")+c06If(res.obs.NotFound, "+notfound", ""))
	js := map[string]any{"spec": c06Brief(sp), "observed": res.obs}
	h.g.Case(res.coq(), js, key)
}

func c06If(c bool, a string, b ...string) string {
	if c {
		return a
	}
	if len(b) > 0 {
		return b[0]
	}
	return ""
}

// c06Brief drops the payload bytes from the JSON line (the Coq term and the seed identify the case)
func c06Brief(sp c06Spec) any {
	type beh struct {
		Kind   string `json:"kind"`
		Fam    string `json:"fam,omitempty"`
		Status int    `json:"status,omitempty"`
		Len    int    `json:"len,omitempty"`
	}
	out := struct {
		Reqs      []c06Req `json:"reqs"`
		Scripts   [][]beh  `json:"scripts"`
		Blacklist bool     `json:"blacklisting"`
		Pre       bool     `json:"pre_expired,omitempty"`
		Tag       string   `json:"tag,omitempty"`
	}{Reqs: sp.Reqs, Blacklist: sp.Blacklist, Pre: sp.PreExpired, Tag: sp.Tag}
	for _, sc := range sp.Scripts {
		var bs []beh
		for _, b := range sc {
			bs = append(bs, beh{b.Kind, b.Fam, b.Status, len(b.Payload)})
		}
		out.Scripts = append(out.Scripts, bs)
	}
	return out
}

// exec runs a spec (re-running it when a wall-clock dependent step was disturbed by machine load), feeds the oracle and
// records the case.
func (h *c06H) exec(sp c06Spec) *c06Result {
	var res *c06Result
	for try := 0; try < 4; try++ {
		res = h.runCase(sp)
		if !res.tainted {
			break
		}
		h.r.Count("harness", "rerun-after-load-disturbance")
	}
	h.oracle(res)
	if res.tainted {
		h.r.Count("harness", "dropped-tainted")
		return res
	}
	if res.overflow > 0 {
		h.r.Count("harness", "script-overflow")
	}
	h.record(res)
	return res
}

func TestVerifC06(t *testing.T) {
	r := zv.Start(t, "C06")
	defer r.Finish()
	rng := r.Rand()
	h := &c06H{t: t, r: r}
	h.g = r.Group("getter", c06Header, "ccase", "mismatches")
	for i, k := range []int{2, 4, 4, 8} {
		h.squares = append(h.squares, c06GenSquare(t, rng.Fork(uint64(i)), k, uint64(10+i)))
	}
	h.net = newC06Net(t, 10, h.squares)

	var replay struct {
		Spec c06Spec `json:"spec"`
	}
	if r.ReplayInput(&replay) && len(replay.Spec.Reqs) > 0 {
		res := h.exec(replay.Spec)
		t.Logf("replay: %+v", res.obs)
		c06Bitswap(t, r, h, true)
		return
	}

	// ---- directed cases: the two sequences the property text singles out, for every square
	for sqi, sq := range h.squares {
		// (1) a sample of another square, then silence until the deadline
		rq := c06Req{Kind: "sample", Sq: sqi, Row: 1 % (2 * sq.k), Col: 0}
		rq2 := c06Req{Kind: "sample", Sq: sqi, Row: 0, Col: 1}
		h.exec(c06Spec{Reqs: []c06Req{rq, rq2}, Scripts: [][]c06Beh{{{Kind: "other"}, {Kind: "deadline"}}, {{Kind: "honest"}}}, Blacklist: true, Tag: "foreign-sample-then-deadline"})
		h.exec(c06Spec{Reqs: []c06Req{rq}, Scripts: [][]c06Beh{{{Kind: "other"}, {Kind: "deadline"}}}, Blacklist: false, Tag: "foreign-sample-then-deadline"})
		// (2) a rejected two-row range answer, then the honest one-row answer
		if sq.k > 1 {
			run := sq.runs[0] // spans two rows by construction
			rg := c06Req{Kind: "range", Sq: sqi, From: run.from, To: min(run.from+sq.k-1, sq.k)}
			if p, ok := c06Forge(rng, sq, rg, "extend"); ok {
				h.exec(c06Spec{Reqs: []c06Req{rg}, Scripts: [][]c06Beh{{{Kind: "payload", Fam: "extend", Payload: p}, {Kind: "honest"}}}, Blacklist: true, Tag: "two-row-then-honest"})
			} else {
				t.Fatalf("directed range case does not apply to square %d", sqi)
			}
		}
		// (3) every peer answers NOT_FOUND
		for _, kind := range []string{"row", "eds", "nd", "range"} {
			rq := h.randReq(rng, kind, sqi)
			nf := c06Beh{Kind: "status", Status: int(shrexpb.Status_NOT_FOUND)}
			h.exec(c06Spec{Reqs: []c06Req{rq}, Scripts: [][]c06Beh{{nf, nf, nf, {Kind: "deadline"}}}, Blacklist: true, Tag: "all-notfound"})
		}
		// (5) a peer starts answering and stalls, the next one is honest (what the first left in the buffer must not matter)
		if sqi == 1 {
			for _, kind := range []string{"eds", "nd"} {
				rq := h.randReq(rng, kind, sqi)
				if p, err := rq.honestPayload(sq, &sq.oacc); err == nil && len(p) > 8 {
					h.exec(c06Spec{Reqs: []c06Req{rq}, Scripts: [][]c06Beh{{{Kind: "timeout", Fam: "stalled-payload", Payload: p[:len(p)/2]}, {Kind: "honest"}}}, Blacklist: true, Tag: "stalled-then-honest"})
				}
			}
		}
		// (4) the context is done before the call
		h.exec(c06Spec{Reqs: []c06Req{h.randReq(rng, "row", sqi)}, Scripts: [][]c06Beh{{{Kind: "honest"}}}, Blacklist: true, PreExpired: true, Tag: "pre-expired"})
	}

	// ---- generated fault sequences
	kinds := []string{"row", "eds", "nd", "range", "range", "sample"}
	nTimeout := 0
	for i, n := 0, r.N(260, 4000); i < n; i++ {
		kind := kinds[i%len(kinds)]
		sqi := rng.Intn(len(h.squares))
		if kind == "eds" && h.squares[sqi].k == 8 && rng.Chance(70) {
			sqi = 1
		}
		sp := c06Spec{Blacklist: rng.Chance(70)}
		allowTimeout := rng.Chance(6) && nTimeout < r.N(8, 120)
		if kind == "sample" {
			for j, m := 0, 1+rng.Intn(3); j < m; j++ {
				rq := h.randReq(rng, "sample", sqi)
				dup := false
				for _, q := range sp.Reqs {
					dup = dup || (q.Row == rq.Row && q.Col == rq.Col)
				}
				if dup {
					continue
				}
				sp.Reqs = append(sp.Reqs, rq)
				sp.Scripts = append(sp.Scripts, h.randScript(rng, rq, 2, allowTimeout, false))
			}
		} else {
			rq := h.randReq(rng, kind, sqi)
			sp.Reqs = []c06Req{rq}
			sp.Scripts = [][]c06Beh{h.randScript(rng, rq, 4, allowTimeout, true)}
		}
		// One GetSamples call has ONE context. A slot that reaches its "deadline" step waits for the other slots to reach
		// theirs; if another slot meanwhile sits in a "timeout" step (a real per-attempt timer), the waiting attempt
		// times out as well and goes on to its next scripted peer, which the per-slot model does not describe. Such
		// combinations are outside what the scripts can express: timeouts are turned into INTERNAL answers there.
		if len(sp.Scripts) > 1 {
			hasDeadline := false
			for _, sc := range sp.Scripts {
				for _, b := range sc {
					hasDeadline = hasDeadline || b.Kind == "deadline"
				}
			}
			if hasDeadline {
				for i := range sp.Scripts {
					for j := range sp.Scripts[i] {
						if sp.Scripts[i][j].Kind == "timeout" {
							sp.Scripts[i][j] = c06Beh{Kind: "status", Status: int(shrexpb.Status_INTERNAL)}
						}
					}
				}
			}
		}
		if h.usesTimeout(sp) {
			nTimeout++
		}
		h.exec(sp)
	}
	r.Set("squares", fmt.Sprintf("ODS widths %v", func() (ks []int) {
		for _, s := range h.squares {
			ks = append(ks, s.k)
		}
		return
	}()))
	c06Bitswap(t, r, h, false)
	_ = strings.Join
}

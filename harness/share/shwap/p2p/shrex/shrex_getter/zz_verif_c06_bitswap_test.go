//go:build verif

package shrex_getter //nolint:stylecheck

// C06, second half: the real bitswap Getter over an in-process exchange that runs the real multihash verifier (the shwap
// "hasher") on every delivered body, and the real CascadeGetter over scripted and real getters.

import (
	"bytes"
	"context"
	"errors"
	"fmt"
	"sync"
	"testing"

	"github.com/ipfs/boxo/blockstore"
	"github.com/ipfs/boxo/exchange"
	blocks "github.com/ipfs/go-block-format"
	"github.com/ipfs/go-cid"
	"github.com/ipfs/go-datastore"
	ds_sync "github.com/ipfs/go-datastore/sync"

	libshare "github.com/celestiaorg/go-square/v4/share"
	"github.com/celestiaorg/rsmt2d"

	"github.com/celestiaorg/celestia-node/header"
	"github.com/celestiaorg/celestia-node/share"
	"github.com/celestiaorg/celestia-node/share/availability"
	"github.com/celestiaorg/celestia-node/share/eds/byzantine"
	"github.com/celestiaorg/celestia-node/share/shwap"
	"github.com/celestiaorg/celestia-node/share/shwap/getters"
	"github.com/celestiaorg/celestia-node/share/shwap/p2p/bitswap"
	bitswappb "github.com/celestiaorg/celestia-node/share/shwap/p2p/bitswap/pb"
	shwappb "github.com/celestiaorg/celestia-node/share/shwap/pb"
	"github.com/celestiaorg/celestia-node/store"
	zv "github.com/celestiaorg/celestia-node/zzverif"
)

// ------------------------------------------------------------------------------------------------ in-process exchange

type c06Delivery struct {
	Fam  string `json:"fam"`
	Data []byte `json:"data"`
	Pref []byte `json:"prefix"` // CID prefix the sender announces the body under
}

// c06Exchange hands the scripted bodies, in order, to the multihash registered for the announced prefix (this is what the
// bitswap client does with every block of an incoming message) and forwards the ones whose resulting CID is wanted.
type c06Exchange struct {
	mu       sync.Mutex
	script   []c06Delivery
	pos      int
	ctx      *c06Ctx
	hasherOK []bool // per delivery: the hasher accepted the body
	panics   []string
	notified int
}

func (e *c06Exchange) GetBlock(context.Context, cid.Cid) (blocks.Block, error) {
	return nil, errors.New("not used")
}
func (e *c06Exchange) NotifyNewBlocks(context.Context, ...blocks.Block) error {
	e.mu.Lock()
	e.notified++
	e.mu.Unlock()
	return nil
}
func (e *c06Exchange) Close() error                                { return nil }
func (e *c06Exchange) NewSession(context.Context) exchange.Fetcher { return e }

func (e *c06Exchange) GetBlocks(ctx context.Context, cids []cid.Cid) (<-chan blocks.Block, error) {
	out := make(chan blocks.Block)
	wanted := map[cid.Cid]bool{}
	for _, c := range cids {
		wanted[c] = true
	}
	go func() {
		defer close(out)
		for {
			e.mu.Lock()
			if e.pos >= len(e.script) {
				e.mu.Unlock()
				break
			}
			d := e.script[e.pos]
			e.pos++
			e.mu.Unlock()
			var c cid.Cid
			var err error
			p := zv.Recover(func() {
				var pref cid.Prefix
				pref, err = cid.PrefixFromBytes(d.Pref)
				if err == nil {
					c, err = pref.Sum(d.Data)
				}
			})
			e.mu.Lock()
			e.hasherOK = append(e.hasherOK, p == "" && err == nil)
			if p != "" {
				e.panics = append(e.panics, p)
			}
			e.mu.Unlock()
			if p != "" || err != nil || !wanted[c] {
				continue
			}
			blk, err := blocks.NewBlockWithCid(d.Data, c)
			if err != nil {
				continue
			}
			delete(wanted, c)
			select {
			case out <- blk:
			case <-ctx.Done():
				return
			}
			if len(wanted) == 0 {
				return
			}
		}
		if len(wanted) > 0 {
			e.ctx.fire() // nothing more will come: the caller's deadline passes
			<-ctx.Done()
		}
	}()
	return out, nil
}

// ------------------------------------------------------------------------------------------------ blocks and classification

type c06Blk struct {
	Kind string `json:"kind"` // sample | row | rnd | range
	Row  int    `json:"row,omitempty"`
	Col  int    `json:"col,omitempty"`
	Ns   []byte `json:"ns,omitempty"`
	From int    `json:"from,omitempty"`
	To   int    `json:"to,omitempty"`
}

func (b c06Blk) block(sq *c06Square) (bitswap.Block, error) {
	w := 2 * sq.k
	switch b.Kind {
	case "sample":
		return bitswap.NewEmptySampleBlock(sq.height, shwap.SampleCoords{Row: b.Row, Col: b.Col}, w)
	case "row":
		return bitswap.NewEmptyRowBlock(sq.height, b.Row, w)
	case "rnd":
		ns, err := libshare.NewNamespaceFromBytes(b.Ns)
		if err != nil {
			return nil, err
		}
		return bitswap.NewEmptyRowNamespaceDataBlock(sq.height, b.Row, ns, w)
	case "range":
		return bitswap.NewEmptyRangeNamespaceDataBlock(sq.height, b.From, b.To, sq.k)
	}
	return nil, errors.New("kind")
}

// classifyBody: which of the requested blocks the body addresses (inner CID), and the class of its container.
func c06ClassifyBody(sq *c06Square, blks []c06Blk, cids []cid.Cid, data []byte) (target int, cl c06Class) {
	target = -1
	p := zv.Recover(func() {
		var env bitswappb.Block
		if err := env.Unmarshal(data); err != nil {
			return
		}
		c, err := cid.Cast(env.Cid)
		if err != nil {
			return
		}
		for i := range cids {
			if cids[i].Equals(c) {
				target = i
			}
		}
		if target < 0 {
			return
		}
		b := blks[target]
		switch b.Kind {
		case "sample":
			var pb shwappb.Sample
			if pb.Unmarshal(env.Container) != nil {
				return
			}
			s, err := shwap.SampleFromProto(&pb)
			if err != nil {
				return
			}
			cl.Decodes, cl.Empty, cl.Canon = true, s.IsEmpty(), c06CanonSample(s)
			cl.Ok = !cl.Empty && s.Verify(sq.roots, b.Row, b.Col) == nil
		case "row":
			var pb shwappb.Row
			if pb.Unmarshal(env.Container) != nil {
				return
			}
			r, err := shwap.RowFromProto(&pb)
			if err != nil {
				return
			}
			cl.Decodes, cl.Empty = true, r.IsEmpty()
			raw, _ := r.ToProto().Marshal()
			cl.Ok = !cl.Empty && r.Verify(sq.roots, b.Row) == nil
			cl.Canon = "Rraw" + c06Hash(raw)
			if cl.Ok {
				cl.Canon = c06CanonRow(r)
			}
		case "rnd":
			var pb shwappb.RowNamespaceData
			if pb.Unmarshal(env.Container) != nil {
				return
			}
			d, err := shwap.RowNamespaceDataFromProto(&pb)
			if err != nil {
				return
			}
			ns, _ := libshare.NewNamespaceFromBytes(b.Ns)
			cl.Decodes, cl.Empty = true, d.IsEmpty()
			raw, _ := d.ToProto().Marshal()
			cl.Canon = "D" + c06Hash(raw)
			cl.Ok = !cl.Empty && d.Verify(sq.roots, ns, b.Row) == nil
		case "range":
			var pb shwappb.RangeNamespaceData
			if pb.Unmarshal(env.Container) != nil {
				return
			}
			d, err := shwap.RangeNamespaceDataFromProto(&pb)
			if err != nil {
				return
			}
			cl.Decodes, cl.Empty, cl.Canon = true, d.IsEmpty(), c06CanonRange(d)
			cl.Ok = !cl.Empty && c06Verify(c06Req{Kind: "range", From: b.From, To: b.To}, sq, d) == nil
		}
	})
	if p != "" {
		return -1, c06Class{}
	}
	return target, cl
}

func c06Envelope(c cid.Cid, container []byte) []byte {
	b, _ := (&bitswappb.Block{Cid: c.Bytes(), Container: container}).Marshal()
	return b
}

// ------------------------------------------------------------------------------------------------ bitswap cases

type c06BsSpec struct {
	Method string        `json:"method"` // samples | row | range | nd | eds
	Sq     int           `json:"sq"`
	Blks   []c06Blk      `json:"blks"`
	Ns     []byte        `json:"ns,omitempty"`
	Script []c06Delivery `json:"script"`
	// which block store the getter is wired to: "" / "light" = a blockstore over a datastore (nodebuilder
	// blockstoreFromDatastore, light nodes), "bridge" = the read-only blockstore over the node's EDS store with the
	// metrics wrapper (nodebuilder blockstoreFromEDSStore, bridge nodes; the store does not hold the block)
	Bstore string `json:"bstore,omitempty"`
}

var (
	c06BridgeStoreOnce sync.Once
	c06BridgeStore     *store.Store
)

func (h *c06H) blockstoreFor(kind string) blockstore.Blockstore {
	if kind != "bridge" {
		return blockstore.NewBlockstore(ds_sync.MutexWrap(datastore.NewMapDatastore()))
	}
	c06BridgeStoreOnce.Do(func() {
		st, err := store.NewStore(store.DefaultParameters(), h.t.TempDir())
		if err != nil {
			h.t.Fatalf("bridge store: %v", err)
		}
		c06BridgeStore = st
	})
	bs, err := bitswap.NewBlockstoreWithMetrics(&bitswap.Blockstore{Getter: c06BridgeStore})
	if err != nil {
		h.t.Fatalf("bridge blockstore: %v", err)
	}
	return bs
}

func (h *c06H) bsDeliveries(rng *zv.Rand, sq *c06Square, blks []c06Blk, cids []cid.Cid, maxBad int) []c06Delivery {
	ctx := context.Background()
	good := &bitswap.Blockstore{Getter: h.net.storeA}
	bad := &bitswap.Blockstore{Getter: h.net.storeB}
	body := func(bs *bitswap.Blockstore, c cid.Cid) []byte {
		blk, err := bs.Get(ctx, c)
		if err != nil {
			h.t.Fatalf("blockstore get: %v", err)
		}
		return blk.RawData()
	}
	pref := func(c cid.Cid) []byte { return c.Prefix().Bytes() }
	var sc []c06Delivery
	// per block: some hostile bodies, then (mostly) the honest one; interleaved across blocks
	var per [][]c06Delivery
	for i, c := range cids {
		var ds []c06Delivery
		for j, n := 0, rng.Intn(maxBad+1); j < n; j++ {
			honest := body(good, c)
			var env bitswappb.Block
			_ = env.Unmarshal(honest)
			switch fam := zv.Pick(rng, []string{"othersquare", "foreign-id", "inner-mismatch", "cut", "mutate", "mutcontainer", "garbage", "empty", "emptycontainer", "wrong-prefix"}); fam {
			case "othersquare":
				ds = append(ds, c06Delivery{fam, body(bad, c), pref(c)})
			case "foreign-id": // an honest block of an identifier nobody asked for
				alt := blks[i]
				alt.Row = (alt.Row + 1) % (2 * sq.k)
				if alt.Kind == "range" {
					alt = c06Blk{Kind: "range", From: blks[i].From, To: blks[i].To}
					if alt.To-alt.From > 1 {
						alt.To--
					} else if alt.From > 0 {
						alt.From--
					} else {
						continue
					}
				}
				ab, err := alt.block(sq)
				if err != nil {
					continue
				}
				known := false
				for _, x := range cids {
					known = known || x.Equals(ab.CID())
				}
				if known {
					continue
				}
				blk, err := good.Get(ctx, ab.CID())
				if err != nil {
					continue
				}
				ds = append(ds, c06Delivery{fam, blk.RawData(), pref(ab.CID())})
				if rng.Bool() { // ... and the same body announced under the requested type
					ds = append(ds, c06Delivery{fam + "-as-requested", blk.RawData(), pref(c)})
				}
			case "inner-mismatch": // the requested CID outside, the container of another identifier inside
				alt := blks[i]
				alt.Row = (alt.Row + 1) % (2 * sq.k)
				if alt.Kind == "range" || (alt.Kind == "rnd") {
					continue
				}
				ab, err := alt.block(sq)
				if err != nil {
					continue
				}
				blk, err := good.Get(ctx, ab.CID())
				if err != nil {
					continue
				}
				var e2 bitswappb.Block
				_ = e2.Unmarshal(blk.RawData())
				ds = append(ds, c06Delivery{fam, c06Envelope(c, e2.Container), pref(c)})
			case "cut":
				ds = append(ds, c06Delivery{fam, honest[:len(honest)-1-rng.Intn(len(honest)/2)], pref(c)})
			case "mutate":
				m := append([]byte{}, honest...)
				m[rng.Intn(len(m))] ^= byte(1 << rng.Intn(8))
				ds = append(ds, c06Delivery{fam, m, pref(c)})
			case "mutcontainer":
				m := append([]byte{}, env.Container...)
				if len(m) > 300 {
					m[len(m)/2+rng.Intn(100)] ^= 0x20
				} else if len(m) > 0 {
					m[rng.Intn(len(m))] ^= 0x20
				}
				ds = append(ds, c06Delivery{fam, c06Envelope(c, m), pref(c)})
			case "garbage":
				ds = append(ds, c06Delivery{fam, rng.Bytes(1 + rng.Intn(300)), pref(c)})
			case "empty":
				ds = append(ds, c06Delivery{fam, []byte{}, pref(c)})
			case "emptycontainer":
				ds = append(ds, c06Delivery{fam, c06Envelope(c, nil), pref(c)})
			case "wrong-prefix": // the honest body announced with a hash function nobody registered / sha256
				p := c.Prefix()
				p.MhType = 0x12
				p.MhLength = 32
				ds = append(ds, c06Delivery{fam, honest, p.Bytes()})
			}
		}
		if rng.Chance(80) {
			ds = append(ds, c06Delivery{"honest", body(good, c), pref(c)})
			if rng.Chance(20) { // bodies arriving for a block that is already filled
				ds = append(ds, c06Delivery{"late-othersquare", body(bad, c), pref(c)}, c06Delivery{"late-honest", body(good, c), pref(c)})
			}
		}
		per = append(per, ds)
	}
	for {
		var live []int
		for i := range per {
			if len(per[i]) > 0 {
				live = append(live, i)
			}
		}
		if len(live) == 0 {
			break
		}
		i := zv.Pick(rng, live)
		sc = append(sc, per[i][0])
		per[i] = per[i][1:]
	}
	return sc
}

func (h *c06H) runBitswap(sp c06BsSpec) {
	sq := h.squares[sp.Sq]
	var cids []cid.Cid
	for _, b := range sp.Blks {
		blk, err := b.block(sq)
		if err != nil {
			h.t.Fatalf("block %+v: %v", b, err)
		}
		cids = append(cids, blk.CID())
	}
	cctx := newC06Ctx()
	ex := &c06Exchange{script: sp.Script, ctx: cctx}
	g := bitswap.NewGetter(ex, h.blockstoreFor(sp.Bstore), availability.RequestWindow)
	g.Start()
	defer g.Stop()

	var (
		err      error
		vals     []any // per block
		returned bool  // a value (possibly partial) came back
	)
	pn := zv.Recover(func() {
		switch sp.Method {
		case "samples":
			coords := make([]shwap.SampleCoords, len(sp.Blks))
			for i, b := range sp.Blks {
				coords[i] = shwap.SampleCoords{Row: b.Row, Col: b.Col}
			}
			var s []shwap.Sample
			s, err = g.GetSamples(cctx, sq.eh, coords)
			returned = s != nil
			vals = make([]any, len(sp.Blks))
			for i := range s {
				if !s[i].IsEmpty() {
					vals[i] = s[i]
				}
			}
		case "row":
			var r shwap.Row
			r, err = g.GetRow(cctx, sq.eh, sp.Blks[0].Row)
			vals = []any{nil}
			if !r.IsEmpty() {
				vals[0], returned = r, true
			}
		case "range":
			var d shwap.RangeNamespaceData
			d, err = g.GetRangeNamespaceData(cctx, sq.eh, sp.Blks[0].From, sp.Blks[0].To)
			vals = []any{nil}
			if !d.IsEmpty() {
				vals[0], returned = d, true
			}
		case "nd":
			ns, _ := libshare.NewNamespaceFromBytes(sp.Ns)
			var nd shwap.NamespaceData
			nd, err = g.GetNamespaceData(cctx, sq.eh, ns)
			vals = make([]any, len(sp.Blks))
			returned = nd != nil
			for i := range nd {
				if i < len(vals) && !nd[i].IsEmpty() {
					vals[i] = nd[i]
				}
			}
		case "eds":
			var e *rsmt2d.ExtendedDataSquare
			e, err = g.GetEDS(cctx, sq.eh)
			vals = make([]any, len(sp.Blks))
			if e != nil {
				returned = true
				for i := range sp.Blks {
					row, _ := shwap.RowFromEDS(e, i, shwap.Both)
					vals[i] = row
				}
			}
		}
	})
	replay := map[string]any{"bitswap": sp, "err": fmt.Sprint(err)}
	if pn != "" || len(ex.panics) > 0 {
		h.r.Violation("panic:bitswap-"+sp.Method, "bitswap getter / hasher panicked: "+pn+fmt.Sprint(ex.panics), replay)
		return
	}
	// ---- classes and the Coq case
	pids := map[string]int{}
	pid := func(canon string) int {
		if canon == "" {
			return 0
		}
		if _, ok := pids[canon]; !ok {
			pids[canon] = len(pids) + 1
		}
		return pids[canon]
	}
	per := make([][]string, len(sp.Blks))
	bad := 0
	for _, d := range sp.Script {
		h.r.Count("bitswap_delivery", sp.Method+":"+d.Fam)
		if d.Fam != "honest" {
			bad++
		}
		pref, err := cid.PrefixFromBytes(d.Pref)
		registered := err == nil && pref.MhType >= 0x7800 && pref.MhType < 0x7900
		tgt, cl := c06ClassifyBody(sq, sp.Blks, cids, d.Data)
		if tgt < 0 || !registered {
			continue // addressed to no pending request, or never shown to the shwap verifier
		}
		h.r.Count("bitswap_class", fmt.Sprintf("%s:decodes=%v,empty=%v,ok=%v", sp.Method, cl.Decodes, cl.Empty, cl.Ok))
		switch {
		case !cl.Decodes:
			per[tgt] = append(per[tgt], "None")
		case cl.Empty:
			per[tgt] = append(per[tgt], "(Some None)")
		default:
			per[tgt] = append(per[tgt], fmt.Sprintf("(Some (Some (%d, %s)))", pid(cl.Canon), zv.Bool(cl.Ok)))
		}
	}
	lists := make([]string, len(per))
	for i := range per {
		lists[i] = zv.List(per[i])
	}
	obsVals := make([]string, len(vals))
	for i, v := range vals {
		p := 0
		switch x := v.(type) {
		case shwap.Sample:
			p = c06Lookup(pids, c06CanonSample(x))
		case shwap.Row:
			p = c06Lookup(pids, c06CanonRow(x))
		case shwap.RowNamespaceData:
			raw, _ := x.ToProto().Marshal()
			p = c06Lookup(pids, "D"+c06Hash(raw))
		case shwap.RangeNamespaceData:
			p = c06Lookup(pids, c06CanonRange(x))
		}
		obsVals[i] = c06CoqOptN(p)
	}
	ov := "None"
	if returned {
		ov = zv.Some(zv.List(obsVals))
	}
	var term string
	if sp.Method == "samples" {
		term = zv.App("CBsSamples", zv.List(lists), ov, zv.Bool(err == nil))
	} else {
		term = zv.App("CBsAll", zv.List(lists), ov)
	}
	key := ""
	if bad > 0 {
		key = "faulty"
	}
	h.g.Case(term, map[string]any{"bitswap": c06BsBrief(sp), "err": fmt.Sprint(err), "returned": returned}, key)
	h.r.Count("request", "bitswap-"+sp.Method)
	h.r.Count("outcome", "bitswap-"+sp.Method+":"+c06If(err != nil, "error", "ok")+c06If(err != nil && returned, "+partial", ""))

	// ---- L3
	for i, v := range vals {
		if v == nil {
			continue
		}
		b := sp.Blks[i]
		var terr error
		switch x := v.(type) {
		case shwap.Sample:
			terr = c06Truth(c06Req{Kind: "sample", Row: b.Row, Col: b.Col}, sq, x)
		case shwap.Row:
			terr = c06Truth(c06Req{Kind: "row", Row: b.Row}, sq, x)
		case shwap.RangeNamespaceData:
			terr = c06Truth(c06Req{Kind: "range", From: b.From, To: b.To}, sq, x)
		case shwap.RowNamespaceData:
			ns, _ := libshare.NewNamespaceFromBytes(b.Ns)
			terr = x.Verify(sq.roots, ns, b.Row)
			var want [][]byte
			for j := 0; j < sq.k && b.Row < sq.k; j++ {
				if s := sq.ods[b.Row*sq.k+j]; bytes.Equal(s.Namespace().Bytes(), b.Ns) {
					want = append(want, s.ToBytes())
				}
			}
			if got := libshare.ToBytes(x.Shares); len(got) != len(want) || (len(want) > 0 && !eq2(got, want)) {
				terr = errors.New("row namespace data differs from the committed shares")
			}
		}
		if terr != nil {
			h.r.Violation("unverified-returned:bitswap-"+sp.Method+":"+c06If(err != nil, "with-error", "ok"),
				fmt.Sprintf("bitswap getter returned an element for %+v that is not the committed data: %v", b, terr), replay)
		}
	}
	// an honest body for every block was delivered => the call succeeds
	honest := map[int]bool{}
	for _, d := range sp.Script {
		if d.Fam == "honest" {
			if tgt, _ := c06ClassifyBody(sq, sp.Blks, cids, d.Data); tgt >= 0 {
				honest[tgt] = true
			}
		}
	}
	if len(honest) == len(sp.Blks) && err != nil {
		h.r.Violation("honest-rejected:bitswap-"+sp.Method, fmt.Sprintf("every block's honest body was delivered but the getter failed: %v", err), replay)
	}
}

func eq2(a, b [][]byte) bool {
	if len(a) != len(b) {
		return false
	}
	for i := range a {
		if !bytes.Equal(a[i], b[i]) {
			return false
		}
	}
	return true
}

func c06BsBrief(sp c06BsSpec) any {
	var fams []string
	for _, d := range sp.Script {
		fams = append(fams, d.Fam)
	}
	return map[string]any{"method": sp.Method, "sq": sp.Sq, "blks": sp.Blks, "deliveries": fams}
}

// ------------------------------------------------------------------------------------------------ cascade

type c06StubOut struct {
	Kind    string `json:"kind"` // ok | notfound | other | partial | notsupported | byzantine
	CtxDone bool   `json:"ctx_done,omitempty"`
	Val     int    `json:"val,omitempty"`
}

// c06Stub is a shwap.Getter with a scripted outcome; values are recognisable rows / sample slices.
type c06Stub struct {
	out c06StubOut
	ctx *c06Ctx
	sq  *c06Square
}

func (s *c06Stub) err() error {
	if s.out.CtxDone {
		s.ctx.fire()
	}
	switch s.out.Kind {
	case "ok":
		return nil
	case "notfound":
		return fmt.Errorf("stub: %w", shwap.ErrNotFound)
	case "notsupported":
		return shwap.ErrOperationNotSupported
	case "byzantine":
		return fmt.Errorf("stub: %w", &byzantine.ErrByzantine{Index: 1})
	}
	return errors.New("stub: some failure")
}

func (s *c06Stub) GetSamples(_ context.Context, _ *header.ExtendedHeader, idx []shwap.SampleCoords) ([]shwap.Sample, error) {
	out := make([]shwap.Sample, len(idx))
	if s.out.Kind == "ok" || s.out.Kind == "partial" {
		// the value is marked by WHICH row's sample sits in slot 0
		smp, _ := s.sq.acc.Sample(context.Background(), shwap.SampleCoords{Row: s.out.Val, Col: 0})
		out[0] = smp
	}
	return out, s.err()
}
func (s *c06Stub) GetRow(_ context.Context, _ *header.ExtendedHeader, _ int) (shwap.Row, error) {
	if s.out.Kind == "ok" || s.out.Kind == "partial" {
		half, _ := s.sq.acc.AxisHalf(context.Background(), rsmt2d.Row, s.out.Val)
		return half.ToRow(), s.err()
	}
	return shwap.Row{}, s.err()
}
func (s *c06Stub) GetEDS(context.Context, *header.ExtendedHeader) (*rsmt2d.ExtendedDataSquare, error) {
	return nil, shwap.ErrOperationNotSupported
}
func (s *c06Stub) GetNamespaceData(context.Context, *header.ExtendedHeader, libshare.Namespace) (shwap.NamespaceData, error) {
	return nil, shwap.ErrOperationNotSupported
}
func (s *c06Stub) GetRangeNamespaceData(context.Context, *header.ExtendedHeader, int, int) (shwap.RangeNamespaceData, error) {
	return shwap.RangeNamespaceData{}, shwap.ErrOperationNotSupported
}

func (h *c06H) runCascade(rng *zv.Rand, sqi int, outs []c06StubOut, samples bool) {
	sq := h.squares[sqi]
	cctx := newC06Ctx()
	var gs []shwap.Getter
	for _, o := range outs {
		gs = append(gs, &c06Stub{out: o, ctx: cctx, sq: sq})
	}
	cg := getters.NewCascadeGetter(gs)
	var (
		err error
		val int
		got bool
	)
	pn := zv.Recover(func() {
		if samples {
			s, e := cg.GetSamples(cctx, sq.eh, []shwap.SampleCoords{{Row: 0, Col: 0}, {Row: 1, Col: 1}})
			err = e
			if len(s) > 0 && !s[0].IsEmpty() {
				got = true
				for row := 0; row < 2*sq.k; row++ {
					if bytes.Equal(s[0].ToBytes(), sq.q.GetCell(uint(row), 0)) {
						val = row
					}
				}
			}
		} else {
			r, e := cg.GetRow(cctx, sq.eh, 0)
			err = e
			if !r.IsEmpty() {
				got = true
				shs, _ := r.Shares()
				for row := 0; row < 2*sq.k; row++ {
					if eq2(libshare.ToBytes(shs), sq.q.Row(uint(row))) {
						val = row
					}
				}
			}
		}
	})
	replay := map[string]any{"cascade": outs, "samples": samples, "sq": sqi}
	if pn != "" {
		h.r.Violation("panic:cascade", "cascade panicked: "+pn, replay)
		return
	}
	if got && err != nil {
		h.r.Violation("partial-escaped:cascade", "the cascade returned a value together with an error", replay)
	}
	var gl []string
	for _, o := range outs {
		e := "GNone"
		switch o.Kind {
		case "notfound":
			e = "(GOther (mkerrs true false false false))"
		case "other", "partial":
			e = "(GOther (mkerrs false false true false))"
		case "notsupported":
			e = "GNotSupported"
		case "byzantine":
			e = "GByzantine"
		}
		gl = append(gl, fmt.Sprintf("(mkgres %d %s %s)", o.Val, e, zv.Bool(o.CtxDone)))
		h.r.Count("cascade_getter", o.Kind+c06If(o.CtxDone, "+ctxdone", ""))
	}
	obs := "None"
	switch {
	case len(outs) == 0:
	case err == nil:
		obs = fmt.Sprintf("(Some (CVal %d))", val)
	default:
		var bz *byzantine.ErrByzantine
		obs = fmt.Sprintf("(Some (CFail %s %s))", zv.Bool(errors.Is(err, shwap.ErrNotFound)), zv.Bool(errors.As(err, &bz)))
	}
	key := ""
	if len(outs) > 1 {
		key = "multi"
	}
	h.g.Case(zv.App("CCascade", zv.List(gl), obs), replay, key)
	h.r.Count("request", "cascade")
}

// e2e cascades with the real getters a node wires: [store] ++ [shrex] ++ [bitswap]
func (h *c06H) runCascadeReal(rng *zv.Rand, sqi int, storeHas bool, shrexHonest bool) {
	sq := h.squares[sqi]
	var gs []shwap.Getter
	st := h.net.storeA
	if !storeHas {
		st = h.emptyStore
	}
	gs = append(gs, store.NewGetter(st))
	c := &c06Case{scripts: map[string][]c06Beh{}, next: map[string]int{}, ctx: newC06Ctx(), slots: 1, release: make(chan struct{})}
	rq := c06Req{Kind: "row", Sq: sqi, Row: rng.Intn(2 * sq.k)}
	if shrexHonest {
		c.scripts[rq.key(sq)] = []c06Beh{{Kind: "status", Status: 2}, {Kind: "payload", Fam: "garbage", Payload: rng.Bytes(40)}, {Kind: "honest"}}
	} else {
		c.scripts[rq.key(sq)] = []c06Beh{{Kind: "status", Status: 2}, {Kind: "payload", Fam: "garbage", Payload: rng.Bytes(40)}, {Kind: "deadline"}}
	}
	env := h.net.newGetter(c, true, 3600e9)
	gs = append(gs, env.getter)
	cg := getters.NewCascadeGetter(gs)
	var (
		row shwap.Row
		err error
	)
	hang := h.net.run(c, func(ctx context.Context) { row, err = cg.GetRow(ctx, sq.eh, rq.Row) })
	_ = env.getter.Stop(context.Background())
	replay := map[string]any{"cascade_real": map[string]any{"store_has": storeHas, "shrex_honest": shrexHonest, "req": rq}, "err": fmt.Sprint(err)}
	if hang {
		h.r.Violation("hang:cascade", "cascade did not return", replay)
	}
	if !row.IsEmpty() {
		if terr := c06Truth(rq, sq, row); terr != nil {
			h.r.Violation("unverified-returned:cascade", "cascade returned a row that is not the committed row: "+terr.Error(), replay)
		}
		if err != nil {
			h.r.Violation("partial-escaped:cascade", "the cascade returned a value together with an error", replay)
		}
	}
	if (storeHas || shrexHonest) && err != nil {
		h.r.Violation("honest-rejected:cascade", fmt.Sprintf("a getter of the cascade had the data but the cascade failed: %v", err), replay)
	}
	if !storeHas && !shrexHonest && (err == nil) {
		h.r.Violation("notfound-misreported:cascade", "nobody had the data but the cascade succeeded", replay)
	}
	h.r.Count("request", "cascade-real")
	h.r.Count("outcome", "cascade-real:"+c06If(err != nil, "error", "ok"))
}

// ------------------------------------------------------------------------------------------------ driver

func c06Bitswap(t *testing.T, r *zv.Run, h *c06H, replayOnly bool) {
	var rp struct {
		Bitswap *c06BsSpec `json:"bitswap"`
	}
	if r.ReplayInput(&rp) && rp.Bitswap != nil {
		h.runBitswap(*rp.Bitswap)
		return
	}
	if replayOnly {
		return
	}
	rng := r.Rand().Fork(606)
	var err error
	h.emptyStore, err = store.NewStore(store.DefaultParameters(), t.TempDir())
	if err != nil {
		t.Fatal(err)
	}
	methods := []string{"samples", "samples", "row", "range", "nd", "eds"}
	for i, n := 0, r.N(150, 2500); i < n; i++ {
		m := methods[i%len(methods)]
		sqi := rng.Intn(len(h.squares))
		sq := h.squares[sqi]
		if m == "eds" && sq.k > 4 {
			sqi, sq = 1, h.squares[1]
		}
		sp := c06BsSpec{Method: m, Sq: sqi, Bstore: "light"}
		if rng.Intn(3) == 0 {
			sp.Bstore = "bridge"
		}
		h.r.Count("bitswap_blockstore", sp.Bstore)
		w := 2 * sq.k
		switch m {
		case "samples":
			seen := map[[2]int]bool{}
			for j, k := 0, 1+rng.Intn(4); j < k; j++ {
				b := c06Blk{Kind: "sample", Row: rng.Intn(w), Col: rng.Intn(w)}
				if !seen[[2]int{b.Row, b.Col}] {
					seen[[2]int{b.Row, b.Col}] = true
					sp.Blks = append(sp.Blks, b)
				}
			}
		case "row":
			sp.Blks = []c06Blk{{Kind: "row", Row: rng.Intn(w)}}
		case "range":
			rq := h.randReq(rng, "range", sqi)
			sp.Blks = []c06Blk{{Kind: "range", From: rq.From, To: rq.To}}
		case "nd":
			run := zv.Pick(rng, sq.runs)
			sp.Ns = run.ns.Bytes()
			rows, err := share.RowsWithNamespace(sq.roots, run.ns)
			if err != nil || len(rows) == 0 {
				continue
			}
			for _, rw := range rows {
				sp.Blks = append(sp.Blks, c06Blk{Kind: "rnd", Row: rw, Ns: sp.Ns})
			}
		case "eds":
			for rw := 0; rw < sq.k; rw++ {
				sp.Blks = append(sp.Blks, c06Blk{Kind: "row", Row: rw})
			}
		}
		var cids []cid.Cid
		for _, b := range sp.Blks {
			blk, err := b.block(sq)
			if err != nil {
				t.Fatalf("block: %v", err)
			}
			cids = append(cids, blk.CID())
		}
		sp.Script = h.bsDeliveries(rng, sq, sp.Blks, cids, 2)
		h.runBitswap(sp)
	}
	// cascades over scripted getters: every path of cascadeGetters
	kinds := []string{"ok", "ok", "notfound", "notfound", "other", "partial", "partial", "notsupported", "byzantine"}
	for i, n := 0, r.N(120, 2000); i < n; i++ {
		var outs []c06StubOut
		for j, k := 0, rng.Intn(5); j < k; j++ {
			o := c06StubOut{Kind: zv.Pick(rng, kinds), Val: rng.Intn(4)}
			if o.Kind != "ok" && o.Kind != "notsupported" && rng.Chance(15) {
				o.CtxDone = true
			}
			outs = append(outs, o)
		}
		h.runCascade(rng, rng.Intn(len(h.squares)), outs, rng.Bool())
	}
	for _, a := range []bool{true, false} {
		for _, b := range []bool{true, false} {
			h.runCascadeReal(rng, rng.Intn(len(h.squares)), a, b)
		}
	}
}

//go:build verif

package docgen

import "reflect"

// ZZVerifExampleValue exposes the OpenRPC example generator (C19 harness support, injected with -overlay): the harness
// uses the documented example of each parameter type as the dummy argument of its calls.
func ZZVerifExampleValue(t reflect.Type) (v any, err error) {
	defer func() {
		if e := recover(); e != nil {
			v, err = nil, errRecovered
		}
	}()
	return exampleValue(t, nil)
}

var errRecovered = errorString("example generator panicked")

type errorString string

func (e errorString) Error() string { return string(e) }

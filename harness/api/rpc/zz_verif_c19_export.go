//go:build verif

package rpc

import (
	"reflect"
	"sort"
)

// ZZVerifMethods lists the "namespace.Method" names the JSON-RPC server has registered (C19 harness support, injected
// with -overlay). Read-only reflection over go-jsonrpc's handler table.
func (s *Server) ZZVerifMethods() []string {
	h := reflect.ValueOf(s.rpc).Elem().FieldByName("handler")
	if h.Kind() == reflect.Ptr {
		h = h.Elem()
	}
	m := h.FieldByName("methods")
	var out []string
	for _, k := range m.MapKeys() {
		out = append(out, k.String())
	}
	sort.Strings(out)
	return out
}

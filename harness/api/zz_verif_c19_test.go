//go:build verif

package api

// C19 correspondence + oracle harness (see /verif/DESIGN.md, C19).
//
// A real rpc.Server is built with the node's own constructor (nodebuilder/rpc.server) and the node's own registration
// list (nodebuilder/rpc.registerEndpoints, called by reflection) over gomock modules, once per configuration
// (authentication on / off / on+CORS / on+metrics). Then EVERY served method (union of: what the running server has
// registered, the fields of every <module>.API.Internal, the methods of every Module interface) is called with EVERY
// credential, over HTTP POST (and over a websocket: always for subscriptions, for everything on the main
// configuration), with the documented example value of each parameter type as dummy argument.
//
// L2: each call + what was observed (which mock method ran / "missing permission" / 401 / not found) is written as a
//     Coq term; CN.Rpc.Current.mismatches recomputes the outcome from the tables the translator regenerated.
//     A coverage case per configuration lists what the server serves; the Coq side compares it with the tables.
// L3: independent of the model: the permission a method DECLARES is read by reflection from its struct tag; a call that
//     ran a module method without the credential listing that permission, a credentialed call that did not run it, or
//     a call that ran another method is a violation. (The sensitivity policy oracle is lib/props/c19.py.)

import (
	"bufio"
	"bytes"
	"context"
	"encoding/base64"
	"encoding/binary"
	"encoding/json"
	"errors"
	"fmt"
	"io"
	"net"
	"net/http"
	"net/url"
	"reflect"
	"sort"
	"strings"
	"sync"
	"testing"
	"time"

	"github.com/cristalhq/jwt/v5"
	"github.com/filecoin-project/go-jsonrpc/auth"
	"github.com/golang/mock/gomock"
	logging "github.com/ipfs/go-log/v2"

	"github.com/celestiaorg/celestia-node/api/docgen"
	"github.com/celestiaorg/celestia-node/api/rpc/client"
	"github.com/celestiaorg/celestia-node/api/rpc/perms"
	blobMock "github.com/celestiaorg/celestia-node/nodebuilder/blob/mocks"
	blobstreamMock "github.com/celestiaorg/celestia-node/nodebuilder/blobstream/mocks"
	dasMock "github.com/celestiaorg/celestia-node/nodebuilder/das/mocks"
	headerMock "github.com/celestiaorg/celestia-node/nodebuilder/header/mocks"
	nodeMock "github.com/celestiaorg/celestia-node/nodebuilder/node/mocks"
	p2pMock "github.com/celestiaorg/celestia-node/nodebuilder/p2p/mocks"
	noderpc "github.com/celestiaorg/celestia-node/nodebuilder/rpc"
	shareMock "github.com/celestiaorg/celestia-node/nodebuilder/share/mocks"
	stateMock "github.com/celestiaorg/celestia-node/nodebuilder/state/mocks"
	zv "github.com/celestiaorg/celestia-node/zzverif"
)

const c19Header = `From Coq Require Import String List BinInt BinNat.
From CN Require Import Rpc.Table Rpc.Perms Rpc.Current.
Import ListNotations.
Open Scope string_scope.
`

// ------------------------------------------------------------------------------------------------ hit recorder

type c19Hit struct{ Module, Method string }

type c19Recorder struct {
	mu   sync.Mutex
	hits []c19Hit
}

func (r *c19Recorder) hit(mo, na string) {
	r.mu.Lock()
	r.hits = append(r.hits, c19Hit{mo, na})
	r.mu.Unlock()
}

func (r *c19Recorder) take() []c19Hit {
	r.mu.Lock()
	defer r.mu.Unlock()
	h := r.hits
	r.hits = nil
	return h
}

// c19Zero builds the results a fake implementation returns: zero values, closed channels for subscriptions.
func c19Zero(ft reflect.Type) []reflect.Value {
	out := make([]reflect.Value, ft.NumOut())
	for i := range out {
		t := ft.Out(i)
		if t.Kind() == reflect.Chan {
			ch := reflect.MakeChan(reflect.ChanOf(reflect.BothDir, t.Elem()), 0)
			ch.Close()
			out[i] = ch.Convert(t)
			continue
		}
		out[i] = reflect.Zero(t)
		if t.Kind() == reflect.Interface {
			continue // error (nil) and other interfaces
		}
		// the documented example where there is one: some zero values do not survive JSON encoding (node.Type)
		c19ExMu.Lock()
		ex, ok := c19Ex[t]
		if !ok {
			if v, err := docgen.ZZVerifExampleValue(t); err == nil && v != nil && reflect.TypeOf(v) == t {
				if _, err := json.Marshal(v); err == nil {
					ex = reflect.ValueOf(v)
				}
			}
			c19Ex[t] = ex
		}
		c19ExMu.Unlock()
		if ex.IsValid() {
			out[i] = ex
		}
	}
	return out
}

var (
	c19ExMu sync.Mutex
	c19Ex   = map[reflect.Type]reflect.Value{}
)

// c19Arm programs a gomock module: every method of the interface may be called any number of times; each call is
// recorded and returns zero values.
func c19Arm(mock any, iface reflect.Type, ns string, rec *c19Recorder) {
	exp := reflect.ValueOf(mock).MethodByName("EXPECT").Call(nil)[0]
	for i := 0; i < iface.NumMethod(); i++ {
		m := iface.Method(i)
		rm := exp.MethodByName(m.Name)
		n := rm.Type().NumIn()
		if rm.Type().IsVariadic() {
			n--
		}
		args := make([]reflect.Value, n)
		for j := range args {
			args[j] = reflect.ValueOf(gomock.Any())
		}
		call := rm.Call(args)[0].Interface().(*gomock.Call)
		name, ft := m.Name, m.Type
		fn := reflect.MakeFunc(ft, func([]reflect.Value) []reflect.Value {
			rec.hit(ns, name)
			return c19Zero(ft)
		})
		call.AnyTimes().DoAndReturn(fn.Interface())
	}
}

// c19Fake is the fallback for a module the harness has no gomock for (a module added after the harness was written):
// the module's own API wrapper with every Internal field set to a recording function.
func c19Fake(apiType reflect.Type, ns string, rec *c19Recorder) any {
	v := reflect.New(apiType)
	in := v.Elem().FieldByName("Internal")
	for i := 0; i < in.NumField(); i++ {
		f := in.Type().Field(i)
		if f.Type.Kind() != reflect.Func {
			continue
		}
		name, ft := f.Name, f.Type
		in.Field(i).Set(reflect.MakeFunc(ft, func([]reflect.Value) []reflect.Value {
			rec.hit(ns, name)
			return c19Zero(ft)
		}))
	}
	return v.Interface()
}

// ------------------------------------------------------------------------------------------------ modules

type c19Module struct {
	NS       string
	APIType  reflect.Type // <pkg>.API
	Internal reflect.Type // struct type of API.Internal
	Iface    reflect.Type // <pkg>.Module as taken by registerEndpoints (nil if not a parameter)
}

// c19Modules lists the modules a client can address (client.Modules: namespace -> &Client.<X>.Internal), with the
// wrapper type found among the fields of client.Client.
func c19Modules(t *testing.T) []*c19Module {
	ct := reflect.TypeOf(client.Client{})
	var out []*c19Module
	for ns, p := range client.Modules {
		it := reflect.TypeOf(p).Elem()
		m := &c19Module{NS: ns, Internal: it}
		for i := 0; i < ct.NumField(); i++ {
			f, ok := ct.Field(i).Type.FieldByName("Internal")
			if ok && f.Type == it {
				m.APIType = ct.Field(i).Type
			}
		}
		if m.APIType == nil {
			t.Fatalf("c19: no Client field for namespace %s", ns)
		}
		out = append(out, m)
	}
	sort.Slice(out, func(i, j int) bool { return out[i].NS < out[j].NS })
	return out
}

// ------------------------------------------------------------------------------------------------ servers

type c19Server struct {
	Name        string
	AuthEnabled bool
	URL         string // host:port
	Served      [][2]string
	rec         *c19Recorder
}

func c19StartServer(t *testing.T, name string, cfg noderpc.Config, metrics bool, signer jwt.Signer, verifier jwt.Verifier,
	mods []*c19Module, ctrl *gomock.Controller,
) *c19Server {
	rec := &c19Recorder{}
	srv := noderpc.ZZVerifServer(&cfg, signer, verifier)
	if metrics {
		if err := srv.WithMetrics(); err != nil {
			t.Fatalf("c19: WithMetrics: %v", err)
		}
	}
	known := []any{
		stateMock.NewMockModule(ctrl), shareMock.NewMockModule(ctrl), headerMock.NewMockModule(ctrl),
		dasMock.NewMockModule(ctrl), p2pMock.NewMockModule(ctrl), nodeMock.NewMockModule(ctrl),
		blobMock.NewMockModule(ctrl), blobstreamMock.NewMockModule(ctrl),
	}
	fn := reflect.ValueOf(noderpc.ZZVerifRegisterEndpoints)
	ft := fn.Type()
	args := make([]reflect.Value, ft.NumIn())
	for i := range args {
		pt := ft.In(i)
		if pt == reflect.TypeOf(srv) {
			args[i] = reflect.ValueOf(srv)
			continue
		}
		if pt.Kind() != reflect.Interface {
			t.Fatalf("c19: registerEndpoints parameter %d has unexpected type %s", i, pt)
		}
		// which namespace is this interface served under: the module whose API wrapper lives in the same package
		var mod *c19Module
		for _, m := range mods {
			if m.APIType.PkgPath() == pt.PkgPath() && reflect.PointerTo(m.APIType).Implements(pt) {
				mod = m
			}
		}
		if mod == nil {
			t.Fatalf("c19: no client module for registerEndpoints parameter %s", pt)
		}
		mod.Iface = pt
		var impl any
		for _, k := range known {
			if reflect.TypeOf(k).Implements(pt) && strings.HasPrefix(reflect.TypeOf(k).Elem().PkgPath(), pt.PkgPath()+"/") {
				impl = k
			}
		}
		if impl != nil {
			c19Arm(impl, pt, mod.NS, rec)
		} else {
			impl = c19Fake(mod.APIType, mod.NS, rec)
		}
		args[i] = reflect.ValueOf(impl)
	}
	fn.Call(args)
	if err := srv.Start(context.Background()); err != nil {
		t.Fatalf("c19: start: %v", err)
	}
	t.Cleanup(func() {
		ctx, cancel := context.WithTimeout(context.Background(), 5*time.Second)
		defer cancel()
		_ = srv.Stop(ctx)
	})
	s := &c19Server{Name: name, AuthEnabled: !cfg.SkipAuth, URL: srv.ListenAddr(), rec: rec}
	for _, full := range srv.ZZVerifMethods() {
		ns, na, ok := strings.Cut(full, ".")
		if !ok || na == "EXPECT" { // EXPECT: artifact of registering a gomock object directly (auth disabled)
			continue
		}
		s.Served = append(s.Served, [2]string{ns, na})
	}
	return s
}

// ------------------------------------------------------------------------------------------------ credentials

type c19Cred struct {
	Name      string   `json:"name"`
	Transport string   `json:"transport"` // none | header | nobearer | form
	WF        bool     `json:"wellformed"`
	SigOK     bool     `json:"sig_ok"`
	Expiry    *int64   `json:"expiry,omitempty"` // seconds relative to now
	Allow     []string `json:"allow"`
	Token     string   `json:"-"`
	Base      bool     `json:"base"` // one of the 8 classes of the property
}

func (c c19Cred) valid() bool {
	if c.Transport == "none" {
		return true
	}
	return c.Transport != "nobearer" && c.WF && c.SigOK && (c.Expiry == nil || *c.Expiry >= 0)
}

func (c c19Cred) coq() string {
	if c.Transport == "none" {
		return "ANone"
	}
	exp := zv.None
	if c.Expiry != nil {
		exp = zv.Some(zv.Z(*c.Expiry))
	}
	al := make([]string, len(c.Allow))
	for i, a := range c.Allow {
		al[i] = c19Str(a)
	}
	tok := zv.App("mk_token", zv.Bool(c.WF), zv.Bool(c.SigOK), exp, zv.List(al))
	switch c.Transport {
	case "form":
		return c19D.def("zc", zv.App("AForm", tok))
	case "nobearer":
		return c19D.def("zc", zv.App("AHeader", "false", tok))
	}
	return c19D.def("zc", zv.App("AHeader", "true", tok))
}

// c19Dict: Coq checks string literals slowly (9 constructors per character), so every distinct string and every
// credential is defined once in the header of the case files and the cases refer to them by name.
type c19Dict struct {
	names map[string]string
	defs  []string
}

var c19D = &c19Dict{names: map[string]string{}}

func (d *c19Dict) def(prefix, term string) string {
	if n, ok := d.names[prefix+"\x00"+term]; ok {
		return n
	}
	n := fmt.Sprintf("%s%d", prefix, len(d.defs))
	d.names[prefix+"\x00"+term] = n
	d.defs = append(d.defs, "Definition "+n+" := "+term+".")
	return n
}

func c19Str(s string) string { return c19D.def("zs", `"`+strings.ReplaceAll(s, `"`, `""`)+`"`) }

func c19Perms(ps []auth.Permission) []string {
	out := make([]string, len(ps))
	for i, p := range ps {
		out[i] = string(p)
	}
	return out
}

func c19B64(b []byte) string { return base64.RawURLEncoding.EncodeToString(b) }

func c19Creds(t *testing.T, r *zv.Run, signer jwt.Signer) []c19Cred {
	rng := r.Rand().Fork(19)
	mint := func(s jwt.Signer, ps []auth.Permission, ttl time.Duration) string {
		tok, err := perms.NewTokenWithTTL(s, ps, ttl)
		if err != nil {
			t.Fatalf("c19: mint: %v", err)
		}
		return string(tok)
	}
	otherKey := rng.Bytes(32)
	other, err := jwt.NewSignerHS(jwt.HS256, otherKey)
	if err != nil {
		t.Fatal(err)
	}
	all := c19Perms(perms.AllPerms)
	past, future := int64(-3600), int64(3600)
	alphabet := "ABCDEFGHIJKLMNOPQRSTUVWXYZabcdefghijklmnopqrstuvwxyz0123456789-_"
	garbage := func(n int, dots int) string {
		b := make([]byte, n)
		for i := range b {
			b[i] = alphabet[rng.Intn(len(alphabet))]
		}
		for d := 0; d < dots; d++ {
			b[1+rng.Intn(n-2)] = '.'
		}
		return string(b)
	}
	readTok := mint(signer, perms.ReadPerms, 0)
	adminTok := mint(signer, perms.AllPerms, 0)
	// forged: signature of the read token under an admin payload
	parts := strings.Split(readTok, ".")
	adminPayload, _ := json.Marshal(perms.JWTPayload{Allow: perms.AllPerms, Nonce: rng.Bytes(32)})
	tampered := parts[0] + "." + c19B64(adminPayload) + "." + parts[2]
	algNone := c19B64([]byte(`{"alg":"none","typ":"JWT"}`)) + "." + c19B64(adminPayload) + "."
	hs512, err := jwt.NewSignerHS(jwt.HS512, make([]byte, 32))
	if err != nil {
		t.Fatal(err)
	}
	build := func(claims any) string {
		tk, err := jwt.NewBuilder(signer).Build(claims)
		if err != nil {
			t.Fatalf("c19: build: %v", err)
		}
		return tk.String()
	}
	custom := func(ps ...auth.Permission) []auth.Permission { return ps }
	cs := []c19Cred{
		// the eight classes of the property
		{Name: "none", Transport: "none", Base: true},
		{Name: "public", Transport: "header", WF: true, SigOK: true, Allow: c19Perms(perms.DefaultPerms), Token: mint(signer, perms.DefaultPerms, 0), Base: true},
		{Name: "read", Transport: "header", WF: true, SigOK: true, Allow: c19Perms(perms.ReadPerms), Token: readTok, Base: true},
		{Name: "readwrite", Transport: "header", WF: true, SigOK: true, Allow: c19Perms(perms.ReadWritePerms), Token: mint(signer, perms.ReadWritePerms, 0), Base: true},
		{Name: "admin", Transport: "header", WF: true, SigOK: true, Allow: all, Token: adminTok, Base: true},
		{Name: "expired", Transport: "header", WF: true, SigOK: true, Expiry: &past, Allow: all, Token: mint(signer, perms.AllPerms, -time.Hour), Base: true},
		{Name: "otherkey", Transport: "header", WF: true, SigOK: false, Allow: all, Token: mint(other, perms.AllPerms, 0), Base: true},
		{Name: "garbage", Transport: "header", WF: false, SigOK: false, Allow: all, Token: garbage(40+rng.Intn(80), rng.Intn(4)), Base: true},
		// further credentials: other Allow lists (membership, not hierarchy), other transports, forgeries
		{Name: "admin-ttl", Transport: "header", WF: true, SigOK: true, Expiry: &future, Allow: all, Token: mint(signer, perms.AllPerms, time.Hour)},
		{Name: "only-admin", Transport: "header", WF: true, SigOK: true, Allow: []string{"admin"}, Token: mint(signer, custom("admin"), 0)},
		{Name: "only-write", Transport: "header", WF: true, SigOK: true, Allow: []string{"write"}, Token: mint(signer, custom("write"), 0)},
		{Name: "read-write-nopublic", Transport: "header", WF: true, SigOK: true, Allow: []string{"read", "write"}, Token: mint(signer, custom("read", "write"), 0)},
		{Name: "empty-allow", Transport: "header", WF: true, SigOK: true, Allow: nil, Token: mint(signer, nil, 0)},
		{Name: "unknown-perm", Transport: "header", WF: true, SigOK: true, Allow: []string{"superuser", "Admin", "admin "}, Token: mint(signer, custom("superuser", "Admin", "admin "), 0)},
		{Name: "admin-nobearer", Transport: "nobearer", WF: true, SigOK: true, Allow: all, Token: adminTok},
		{Name: "admin-form", Transport: "form", WF: true, SigOK: true, Allow: all, Token: adminTok},
		{Name: "read-form", Transport: "form", WF: true, SigOK: true, Allow: c19Perms(perms.ReadPerms), Token: readTok},
		{Name: "expired-form", Transport: "form", WF: true, SigOK: true, Expiry: &past, Allow: all, Token: mint(signer, perms.AllPerms, -time.Second)},
		{Name: "garbage-form", Transport: "form", WF: false, SigOK: false, Allow: all, Token: garbage(30+rng.Intn(30), 2)},
		{Name: "tampered-payload", Transport: "header", WF: true, SigOK: false, Allow: all, Token: tampered},
		{Name: "alg-none", Transport: "header", WF: true, SigOK: false, Allow: all, Token: algNone},
		{Name: "alg-hs512-same-key", Transport: "header", WF: true, SigOK: false, Allow: all, Token: mint(hs512, perms.AllPerms, 0)},
		{Name: "truncated", Transport: "header", WF: false, SigOK: false, Allow: all, Token: adminTok[:len(adminTok)-1-rng.Intn(20)]},
		{Name: "signed-bad-claims", Transport: "header", WF: false, SigOK: true, Allow: all, Token: build(map[string]any{"Allow": "admin"})},
	}
	return cs
}

// ------------------------------------------------------------------------------------------------ calls

type c19Call struct {
	Server    string          `json:"server"`
	Auth      bool            `json:"auth_enabled"`
	Cred      c19Cred         `json:"cred"`
	Wire      string          `json:"wire"` // http | ws
	Module    string          `json:"module"`
	Method    string          `json:"method"`
	Params    json.RawMessage `json:"params"`
	Obs       string          `json:"obs"` // reached | denied | 401 | notfound | answered | other
	Hit       *c19Hit         `json:"hit,omitempty"`
	Detail    string          `json:"detail,omitempty"`
	Declared  string          `json:"declared_perm"`
	Returns   string          `json:"returns,omitempty"`
	ParamsOK  bool            `json:"params_ok"`
	SubscribeCh bool          `json:"chan,omitempty"`
}

type c19Target struct {
	Module, Method string
	Fn             reflect.Type // nil: unknown method (probe)
	HasCtx         bool
	Declared       string
	Chan           bool
	Params         json.RawMessage
	ParamsOK       bool
	InModule       bool // a method of the Module interface (what is served when authentication is disabled)
}

// c19ParamJSON finds a JSON text go-jsonrpc will decode into t: the documented example, the zero value, or a literal.
func c19ParamJSON(t reflect.Type) (json.RawMessage, bool) {
	var cands [][]byte
	if v, err := docgen.ZZVerifExampleValue(t); err == nil && v != nil {
		if b, err := json.Marshal(v); err == nil {
			cands = append(cands, b)
		}
		if rv := reflect.ValueOf(v); rv.Kind() == reflect.String {
			// a string-kinded type whose documented example is its text form (peer.ID)
			if b, err := json.Marshal(rv.String()); err == nil {
				cands = append(cands, b)
			}
		}
	}
	func() {
		defer func() { _ = recover() }()
		if b, err := json.Marshal(reflect.Zero(t).Interface()); err == nil {
			cands = append(cands, b)
		}
	}()
	for _, l := range []string{"null", "{}", "[]", `""`, "0"} {
		cands = append(cands, []byte(l))
	}
	for _, c := range cands {
		ok := func() (ok bool) {
			defer func() {
				if recover() != nil {
					ok = false
				}
			}()
			return json.NewDecoder(bytes.NewReader(c)).Decode(reflect.New(t).Interface()) == nil
		}()
		if ok {
			return c, true
		}
	}
	return []byte("null"), false
}

const c19Batch = 4

var c19CtxType = reflect.TypeOf((*context.Context)(nil)).Elem()

func c19MakeTarget(mo, na string, fn reflect.Type, declared string) c19Target {
	tg := c19Target{Module: mo, Method: na, Fn: fn, Declared: declared, ParamsOK: true}
	var ps []json.RawMessage
	if fn != nil {
		start := 0
		if fn.NumIn() > 0 && fn.In(0) == c19CtxType {
			tg.HasCtx = true
			start = 1
		}
		for i := start; i < fn.NumIn(); i++ {
			b, ok := c19ParamJSON(fn.In(i))
			if !ok {
				tg.ParamsOK = false
			}
			ps = append(ps, b)
		}
		for i := 0; i < fn.NumOut(); i++ {
			if fn.Out(i).Kind() == reflect.Chan {
				tg.Chan = true
			}
		}
	}
	if ps == nil {
		ps = []json.RawMessage{}
	}
	tg.Params, _ = json.Marshal(ps)
	return tg
}

type c19Resp struct {
	Result json.RawMessage `json:"result"`
	Error  *struct {
		Code    int    `json:"code"`
		Message string `json:"message"`
	} `json:"error"`
}

var c19HTTP = &http.Client{Timeout: 30 * time.Second, Transport: &http.Transport{MaxIdleConnsPerHost: 4, IdleConnTimeout: 30 * time.Second}}

// c19Do performs one call and classifies what the client sees (status / JSON-RPC error); the hits come from the recorder.
func c19Do(s *c19Server, c c19Cred, wire string, tg c19Target, id int) (status int, resp *c19Resp, detail string) {
	body, _ := json.Marshal(map[string]any{"jsonrpc": "2.0", "id": id, "method": tg.Module + "." + tg.Method, "params": tg.Params})
	hdr := http.Header{}
	q := ""
	switch c.Transport {
	case "header":
		hdr.Set(perms.AuthKey, "Bearer "+c.Token)
	case "nobearer":
		hdr.Set(perms.AuthKey, c.Token)
	case "form":
		q = "?token=" + url.QueryEscape(c.Token)
	}
	if wire == "ws" {
		conn, st, err := c19WSDial(s.URL, "/"+q, hdr, 20*time.Second)
		if err != nil {
			if st != 0 {
				return st, nil, "ws handshake refused"
			}
			return 0, nil, "ws dial: " + err.Error()
		}
		defer conn.Close()
		if err := conn.WriteText(body, 20*time.Second); err != nil {
			return 0, nil, "ws write: " + err.Error()
		}
		for {
			msg, err := conn.ReadText(15 * time.Second)
			if err != nil {
				return 0, nil, "ws read: " + err.Error()
			}
			var probe struct {
				ID     *int   `json:"id"`
				Method string `json:"method"`
			}
			if json.Unmarshal(msg, &probe) == nil && probe.ID == nil && probe.Method != "" {
				continue // a channel notification (xrpc.ch.val / xrpc.ch.close), not the response
			}
			var r c19Resp
			if err := json.Unmarshal(msg, &r); err != nil {
				return 200, nil, "ws: undecodable response"
			}
			return 200, &r, ""
		}
	}
	req, _ := http.NewRequest(http.MethodPost, "http://"+s.URL+"/"+q, bytes.NewReader(body))
	req.Header = hdr
	req.Header.Set("Content-Type", "application/json")
	hr, err := c19HTTP.Do(req)
	if err != nil {
		return 0, nil, "http: " + err.Error()
	}
	defer hr.Body.Close()
	b, _ := io.ReadAll(hr.Body)
	if len(bytes.TrimSpace(b)) == 0 {
		return hr.StatusCode, nil, ""
	}
	var r c19Resp
	if err := json.Unmarshal(b, &r); err != nil {
		return hr.StatusCode, nil, "http: undecodable body"
	}
	return hr.StatusCode, &r, ""
}

// c19WS is a minimal RFC 6455 client (standard library only: the harness must not add a direct dependency to the
// module it is injected into): one masked text frame out, unfragmented or fragmented text frames in.
type c19WS struct {
	c  net.Conn
	br *bufio.Reader
}

func c19WSDial(hostport, path string, hdr http.Header, timeout time.Duration) (*c19WS, int, error) {
	c, err := net.DialTimeout("tcp", hostport, timeout)
	if err != nil {
		return nil, 0, err
	}
	_ = c.SetDeadline(time.Now().Add(timeout))
	var b strings.Builder
	fmt.Fprintf(&b, "GET %s HTTP/1.1\r\nHost: %s\r\nUpgrade: websocket\r\nConnection: Upgrade\r\nSec-WebSocket-Key: %s\r\nSec-WebSocket-Version: 13\r\n",
		path, hostport, base64.StdEncoding.EncodeToString([]byte("c19-verif-harness")[:16]))
	for k, vs := range hdr {
		for _, v := range vs {
			fmt.Fprintf(&b, "%s: %s\r\n", k, v)
		}
	}
	b.WriteString("\r\n")
	if _, err := io.WriteString(c, b.String()); err != nil {
		c.Close()
		return nil, 0, err
	}
	br := bufio.NewReader(c)
	resp, err := http.ReadResponse(br, &http.Request{Method: http.MethodGet})
	if err != nil {
		c.Close()
		return nil, 0, err
	}
	if resp.StatusCode != http.StatusSwitchingProtocols {
		c.Close()
		return nil, resp.StatusCode, fmt.Errorf("handshake status %d", resp.StatusCode)
	}
	return &c19WS{c: c, br: br}, resp.StatusCode, nil
}

func (w *c19WS) Close() { _ = w.c.Close() }

func (w *c19WS) WriteText(p []byte, timeout time.Duration) error {
	_ = w.c.SetWriteDeadline(time.Now().Add(timeout))
	f := []byte{0x81}
	switch n := len(p); {
	case n < 126:
		f = append(f, 0x80|byte(n))
	case n < 1<<16:
		f = append(f, 0x80|126, byte(n>>8), byte(n))
	default:
		f = append(f, 0x80|127)
		f = binary.BigEndian.AppendUint64(f, uint64(n))
	}
	mask := [4]byte{0x13, 0x57, 0x9b, 0xdf}
	f = append(f, mask[:]...)
	for i, c := range p {
		f = append(f, c^mask[i%4])
	}
	_, err := w.c.Write(f)
	return err
}

func (w *c19WS) ReadText(timeout time.Duration) ([]byte, error) {
	_ = w.c.SetReadDeadline(time.Now().Add(timeout))
	var msg []byte
	for {
		var h [2]byte
		if _, err := io.ReadFull(w.br, h[:]); err != nil {
			return nil, err
		}
		fin, op := h[0]&0x80 != 0, h[0]&0x0f
		n := uint64(h[1] & 0x7f)
		switch n {
		case 126:
			var e [2]byte
			if _, err := io.ReadFull(w.br, e[:]); err != nil {
				return nil, err
			}
			n = uint64(binary.BigEndian.Uint16(e[:]))
		case 127:
			var e [8]byte
			if _, err := io.ReadFull(w.br, e[:]); err != nil {
				return nil, err
			}
			n = binary.BigEndian.Uint64(e[:])
		}
		if h[1]&0x80 != 0 || n > 64<<20 {
			return nil, errors.New("ws: unexpected frame")
		}
		p := make([]byte, n)
		if _, err := io.ReadFull(w.br, p); err != nil {
			return nil, err
		}
		switch op {
		case 0x8:
			return nil, errors.New("ws: closed by server")
		case 0x9, 0xa: // ping / pong
			continue
		case 0x0, 0x1, 0x2:
			msg = append(msg, p...)
			if fin {
				return msg, nil
			}
		}
	}
}

func c19Classify(status int, resp *c19Resp, hits []c19Hit, detail string) (obs string, hit *c19Hit, why string) {
	switch {
	case len(hits) > 1:
		return "other", &hits[0], fmt.Sprintf("%d implementation calls for one request", len(hits))
	case len(hits) == 1:
		if resp != nil && resp.Error != nil && strings.HasPrefix(resp.Error.Message, "missing permission") {
			return "other", &hits[0], "implementation ran although the response is a permission error"
		}
		return "reached", &hits[0], ""
	case status == 401:
		return "401", nil, ""
	case resp != nil && resp.Error != nil && strings.HasPrefix(resp.Error.Message, "missing permission to invoke"):
		return "denied", nil, ""
	case resp != nil && resp.Error != nil && resp.Error.Code == -32601:
		return "notfound", nil, ""
	case status == 200 && resp != nil && resp.Error == nil:
		// a result although no module implementation ran: the served method does not go through the module at all
		return "answered", nil, "a result was returned without any module implementation being called"
	}
	if resp != nil && resp.Error != nil {
		detail += fmt.Sprintf(" status=%d code=%d msg=%.120s", status, resp.Error.Code, resp.Error.Message)
	} else {
		detail += fmt.Sprintf(" status=%d no error, no implementation call", status)
	}
	return "other", nil, detail
}

func c19CoqObs(c c19Call) string {
	switch c.Obs {
	case "reached":
		return zv.App("ObsReached", c19Str(c.Hit.Module), c19Str(c.Hit.Method))
	case "denied":
		return "ObsDenied"
	case "401":
		return "Obs401"
	case "notfound":
		return "ObsNotFound"
	}
	return "ObsOther"
}

func c19Contains(xs []string, x string) bool {
	for _, y := range xs {
		if y == x {
			return true
		}
	}
	return false
}

// ------------------------------------------------------------------------------------------------ the test

func TestVerifC19(t *testing.T) {
	r := zv.Start(t, "C19")
	defer r.Finish()
	logging.SetAllLoggers(logging.LevelFatal)
	r.Set("exhaustive", true)

	key := r.Rand().Fork(1).Bytes(32)
	signer, err := jwt.NewSignerHS(jwt.HS256, key)
	if err != nil {
		t.Fatal(err)
	}
	verifier, err := jwt.NewVerifierHS(jwt.HS256, key)
	if err != nil {
		t.Fatal(err)
	}
	ctrl := gomock.NewController(t)
	mods := c19Modules(t)
	modByNS := map[string]*c19Module{}
	for _, m := range mods {
		modByNS[m.NS] = m
	}

	base := noderpc.DefaultConfig()
	base.Address, base.Port = "127.0.0.1", "0"
	mk := func(f func(*noderpc.Config)) noderpc.Config { c := base; f(&c); return c }
	servers := []*c19Server{
		c19StartServer(t, "auth", mk(func(c *noderpc.Config) {}), false, signer, verifier, mods, ctrl),
		c19StartServer(t, "noauth", mk(func(c *noderpc.Config) { c.SkipAuth = true }), false, signer, verifier, mods, ctrl),
		c19StartServer(t, "auth+cors", mk(func(c *noderpc.Config) {
			c.CORS = noderpc.CORSConfig{Enabled: true, AllowedOrigins: []string{"*"}, AllowedMethods: []string{"POST", "GET"}, AllowedHeaders: []string{"*"}}
		}), false, signer, verifier, mods, ctrl),
		c19StartServer(t, "auth+metrics", mk(func(c *noderpc.Config) {}), true, signer, verifier, mods, ctrl),
	}
	creds := c19Creds(t, r, signer)
	// the credential classes of the property are the four cumulative levels
	nominal := map[string][]string{"public": {"public"}, "read": {"public", "read"}, "readwrite": {"public", "read", "write"},
		"admin": {"public", "read", "write", "admin"}, "none": nil}
	for _, c := range creds {
		want, ok := nominal[c.Name]
		if c.Name == "none" {
			if got := c19Perms(perms.DefaultPerms); !reflect.DeepEqual(got, []string{"public"}) {
				r.Violation("permission-set-changed/none", fmt.Sprintf("callers without a token are given %v instead of [public]", got), map[string]any{"set": "DefaultPerms", "value": got})
			}
			continue
		}
		if ok && !reflect.DeepEqual(c.Allow, want) {
			r.Violation("permission-set-changed/"+c.Name, fmt.Sprintf("a %s token carries %v instead of %v", c.Name, c.Allow, want), map[string]any{"credential": c.Name, "value": c.Allow})
		}
	}

	type pending struct {
		term string
		js   any
		nt   string
	}
	var cases []pending
	emit := func(term string, js any, nt string) { cases = append(cases, pending{term, js, nt}) }
	// calls are grouped into Coq cases of up to c19Batch calls made with the same credential on the same server
	type batch struct {
		auth  bool
		cred  string
		terms []string
		calls []c19Call
	}
	batches := map[string]*batch{}
	var batchKeys []string
	flush := func(k string) {
		b := batches[k]
		if b == nil || len(b.terms) == 0 {
			return
		}
		nt := ""
		if b.auth {
			nt = "auth"
		}
		emit(zv.App("RCalls", zv.Bool(b.auth), b.cred, zv.List(b.terms)), b.calls, nt)
		b.terms, b.calls = nil, nil
	}
	addCall := func(c c19Call) {
		k := c.Server + "/" + c.Cred.Name + "/" + c.Wire
		b := batches[k]
		if b == nil {
			b = &batch{auth: c.Auth, cred: c.Cred.coq()}
			batches[k] = b
			batchKeys = append(batchKeys, k)
		}
		b.terms = append(b.terms, zv.Tuple(c19Str(c.Module), c19Str(c.Method), c19CoqObs(c)))
		b.calls = append(b.calls, c)
		if len(b.terms) >= c19Batch {
			flush(k)
		}
	}
	defer func() {
		// the group is created last: its header carries the dictionary
		g := r.Group("matrix", c19Header+strings.Join(c19D.defs, "\n")+"\n", "rcase", "mismatches")
		for _, c := range cases {
			g.Case(c.term, c.js, c.nt)
		}
	}()

	// ---- the call domain: everything any source knows about
	type key2 = [2]string
	targets := map[key2]c19Target{}
	addTarget := func(mo, na string) {
		if _, ok := targets[key2{mo, na}]; ok {
			return
		}
		var fn reflect.Type
		declared := ""
		if m := modByNS[mo]; m != nil {
			if f, ok := m.Internal.FieldByName(na); ok && f.Type.Kind() == reflect.Func {
				fn, declared = f.Type, f.Tag.Get("perm")
			} else if m.Iface != nil {
				if im, ok := m.Iface.MethodByName(na); ok {
					fn = im.Type
				}
			}
			if fn == nil {
				if wm, ok := reflect.PointerTo(m.APIType).MethodByName(na); ok {
					// method value type without the receiver
					in := []reflect.Type{}
					for i := 1; i < wm.Type.NumIn(); i++ {
						in = append(in, wm.Type.In(i))
					}
					out := []reflect.Type{}
					for i := 0; i < wm.Type.NumOut(); i++ {
						out = append(out, wm.Type.Out(i))
					}
					fn = reflect.FuncOf(in, out, wm.Type.IsVariadic())
				}
			}
		}
		tg := c19MakeTarget(mo, na, fn, declared)
		if m := modByNS[mo]; m != nil && m.Iface != nil {
			_, tg.InModule = m.Iface.MethodByName(na)
		}
		targets[key2{mo, na}] = tg
	}
	for _, s := range servers {
		for _, k := range s.Served {
			addTarget(k[0], k[1])
		}
	}
	for _, m := range mods {
		for i := 0; i < m.Internal.NumField(); i++ {
			addTarget(m.NS, m.Internal.Field(i).Name)
		}
		if m.Iface != nil {
			for i := 0; i < m.Iface.NumMethod(); i++ {
				addTarget(m.NS, m.Iface.Method(i).Name)
			}
		}
		wt := reflect.PointerTo(m.APIType)
		for i := 0; i < wt.NumMethod(); i++ {
			addTarget(m.NS, wt.Method(i).Name)
		}
	}
	nReal := len(targets)
	// probes for names that must not exist
	var probes []c19Target
	for _, m := range mods {
		probes = append(probes, c19MakeTarget(m.NS, "ZzNoSuchMethod", nil, ""))
		if m.Internal.NumField() > 0 {
			n := m.Internal.Field(0).Name
			probes = append(probes, c19MakeTarget(m.NS, strings.ToLower(n[:1])+n[1:], nil, ""))
			probes = append(probes, c19MakeTarget("zznosuchmodule", n, nil, ""))
			probes = append(probes, c19MakeTarget(m.NS, "Internal."+n, nil, ""))
		}
	}
	keys := make([]key2, 0, len(targets))
	for k := range targets {
		keys = append(keys, k)
	}
	sort.Slice(keys, func(i, j int) bool { return keys[i][0]+"."+keys[i][1] < keys[j][0]+"."+keys[j][1] })

	// ---- coverage cases
	for _, s := range servers {
		ks := make([]string, len(s.Served))
		for i, k := range s.Served {
			ks[i] = zv.Tuple(c19Str(k[0]), c19Str(k[1]))
		}
		emit(zv.App("RCoverage", zv.Bool(s.AuthEnabled), zv.List(ks)),
			map[string]any{"coverage": s.Name, "auth_enabled": s.AuthEnabled, "served": s.Served}, "coverage/"+s.Name)
		r.Count("served_methods", s.Name+fmt.Sprintf("=%d", len(s.Served)))
	}

	// ---- the plan
	type job struct {
		s    *c19Server
		c    c19Cred
		wire string
		tg   c19Target
	}
	var plan []job
	for _, s := range servers {
		// thorough tier: every credential and both wires on every configuration
		main := s.Name == "auth" || s.Name == "noauth" || r.Thorough()
		for _, c := range creds {
			if !main && !c.Base {
				continue
			}
			for _, k := range keys {
				tg := targets[k]
				if tg.Chan {
					plan = append(plan, job{s, c, "ws", tg}) // subscriptions exist on websockets only
					if s.Name == "auth" && c.Base {
						plan = append(plan, job{s, c, "http", tg}) // over POST they are refused before any check: not found
					}
					continue
				}
				plan = append(plan, job{s, c, "http", tg})
				if (s.Name == "auth" && c.Base) || r.Thorough() {
					plan = append(plan, job{s, c, "ws", tg})
				}
			}
			if main {
				for _, p := range probes {
					plan = append(plan, job{s, c, "http", p})
				}
			}
		}
	}
	var only c19Call
	if r.ReplayInput(&only) {
		var p2 []job
		for _, j := range plan {
			if j.s.Name == only.Server && j.c.Name == only.Cred.Name && j.wire == only.Wire && j.tg.Module == only.Module && j.tg.Method == only.Method {
				p2 = append(p2, j)
			}
		}
		plan = p2
	}
	// seed-dependent order: the outcome of a call must not depend on what was called before
	rng := r.Rand().Fork(7)
	for i := len(plan) - 1; i > 0; i-- {
		j := rng.Intn(i + 1)
		plan[i], plan[j] = plan[j], plan[i]
	}

	reachedBy := map[string]map[string]bool{} // method -> credential names that reached it (auth enabled)
	process := func(id int, j job) {
		j.s.rec.take()
		t0 := time.Now()
		status, resp, detail := c19Do(j.s, j.c, j.wire, j.tg, id+1)
		hits := j.s.rec.take()
		if d := time.Since(t0); d > 2*time.Second {
			t.Logf("slow %v %s %s %s.%s %s status=%d", d, j.s.Name, j.wire, j.tg.Module, j.tg.Method, j.c.Name, status)
		}
		// a POST for a subscription is answered "not supported in this mode" (-32601) before the permission check
		obs, hit, why := c19Classify(status, resp, hits, detail)
		call := c19Call{Server: j.s.Name, Auth: j.s.AuthEnabled, Cred: j.c, Wire: j.wire, Module: j.tg.Module, Method: j.tg.Method,
			Params: j.tg.Params, Obs: obs, Hit: hit, Detail: why, Declared: j.tg.Declared, ParamsOK: j.tg.ParamsOK, SubscribeCh: j.tg.Chan}
		full := j.tg.Module + "." + j.tg.Method
		r.Count("outcome", obs)
		r.Count("outcome_by_server", j.s.Name+"/"+obs)
		r.Count("credential", j.c.Name)
		r.Count("wire", j.wire)
		r.Count("module", j.tg.Module)
		if !j.tg.ParamsOK {
			r.Count("no_dummy_params", full)
		}

		// ---- L2 case. A subscription asked for over POST never gets as far as the permission check; the model
		// has no notion of the wire, so those calls are checked by L3 only.
		if !(j.tg.Chan && j.wire == "http") {
			addCall(call)
		}

		// ---- L3: the declared permission, read from the struct tag, against what happened
		cname := j.c.Name
		if j.tg.Fn == nil { // probe
			if hit != nil {
				r.Violation("reached-unknown-method/"+full, fmt.Sprintf("a name that is not a method ran %s.%s (server %s, credential %s)", hit.Module, hit.Method, j.s.Name, cname), call)
			}
			return
		}
		if hit != nil && (hit.Module != j.tg.Module || hit.Method != j.tg.Method) {
			r.Violation("wrong-target/"+full, fmt.Sprintf("call of %s ran %s.%s", full, hit.Module, hit.Method), call)
			return
		}
		effective := j.c.Allow
		if j.c.Transport == "none" {
			effective = c19Perms(perms.DefaultPerms)
		}
		want := (!j.s.AuthEnabled && j.tg.InModule) || (j.s.AuthEnabled && j.c.valid() && j.tg.Declared != "" && c19Contains(effective, j.tg.Declared))
		if j.tg.Chan && j.wire == "http" {
			want = false
		}
		got := obs == "reached" || obs == "answered"
		if obs == "other" && hit == nil {
			// the harness could not tell (undecodable dummy parameter, transport error): reported through L2 as ObsOther
			r.Count("unclassified_calls", full+": "+why)
			return
		}
		if got && j.s.AuthEnabled {
			if reachedBy[full] == nil {
				reachedBy[full] = map[string]bool{}
			}
			reachedBy[full][cname] = true
		}
		switch {
		case got && !want:
			r.Violation("reached-without-permission/"+full+"/"+cname,
				fmt.Sprintf("%s (declares perm %q) ran for credential %q (allow=%v, valid=%v) on server %s over %s", full, j.tg.Declared, cname, effective, j.c.valid(), j.s.Name, j.wire), call)
		case !got && want:
			r.Violation("wrongly-refused/"+full+"/"+cname,
				fmt.Sprintf("%s (declares perm %q) was refused (%s) for credential %q (allow=%v) on server %s over %s", full, j.tg.Declared, obs, cname, effective, j.s.Name, j.wire), call)
		}
	}
	for id, j := range plan {
		process(id, j)
	}
	// ---- a token that expires between two uses (the verdict on a token must not be remembered): minted with a short
	// lifetime, used while valid, used again after its expiry on the same server
	if only.Server == "" {
		const ttl = 2 * time.Second
		var pick []c19Target
		seen := map[string]bool{}
		for _, k := range keys {
			tg := targets[k]
			if tg.Chan || !tg.ParamsOK || tg.Declared == "" || seen[tg.Declared] {
				continue
			}
			seen[tg.Declared] = true
			pick = append(pick, tg)
		}
		all := c19Perms(perms.AllPerms)
		for si, s := range servers {
			if !s.AuthEnabled {
				continue
			}
			minted := time.Now()
			tok, err := perms.NewTokenWithTTL(signer, perms.AllPerms, ttl)
			if err != nil {
				t.Fatal(err)
			}
			in, out := int64(1), int64(-1)
			fresh := c19Cred{Name: "admin-expiring", Transport: "header", WF: true, SigOK: true, Expiry: &in, Allow: all, Token: string(tok)}
			stale := c19Cred{Name: "admin-expired-after-use", Transport: "header", WF: true, SigOK: true, Expiry: &out, Allow: all, Token: string(tok)}
			for i, tg := range pick {
				if time.Since(minted) > ttl/2 {
					r.Count("expiring_token", "first use too late (machine load): skipped")
					break
				}
				process(len(plan)+1000*si+i, job{s, fresh, "http", tg})
			}
			time.Sleep(time.Until(minted.Add(ttl + 1500*time.Millisecond)))
			for i, tg := range pick {
				process(len(plan)+1000*si+100+i, job{s, stale, "http", tg})
				r.Count("expiring_token", "reused after expiry")
			}
		}
	}
	for _, k := range batchKeys {
		flush(k)
	}
	r.Set("methods_exercised", nReal)
	r.Set("credentials", len(creds))
	r.Set("server_configurations", len(servers))
	r.Set("calls", len(plan))
	// for the policy oracle in lib/props/c19.py: who reached what while authentication was enabled
	rb := map[string][]string{}
	for m, cs := range reachedBy {
		for c := range cs {
			rb[m] = append(rb[m], c)
		}
		sort.Strings(rb[m])
	}
	credAllow := map[string][]string{}
	for _, c := range creds {
		a := c.Allow
		if c.Transport == "none" {
			a = c19Perms(perms.DefaultPerms)
		}
		if !c.valid() {
			a = nil
		}
		credAllow[c.Name] = a
	}
	r.Set("c19_reached_by", rb)
	r.Set("c19_cred_allow", credAllow)
}

//go:build verif

package store

// C05 correspondence + oracle harness (see /verif/DESIGN.md, C05).
//
// Blocks (all widths, every amount of trailing padding for small widths, the empty block) are put into a real Store on a
// temp dir and every representation is forced: recent cache (in-memory rsmt2d), reopened ODS+Q4 files, ODS-only put,
// Q4 pruned (RemoveQ4 / file deleted), through Store, CachedStore, store.Getter and the bare accessors.
// Two wide squares (32; thorough also 64) with a designed layout carry namespaces spanning exactly 16, exactly 17 and well
// over 16 rows: namespace data (eds.NamespaceData fans out over the rows) is read on every representation and layer.
//
// L2: every read (with its observed result, shares as dictionary ids) is emitted as a history of reads on one accessor
//     for CN.Store.ReadPaths.mismatches, which replays it on the model; the bytes of the real .ods/.q4 files are emitted
//     as atoms (header bytes, roots, shares) and compared with the model's encode_ods / encode_q4 / expected sizes.
// L3: every read is compared with the rsmt2d square that was put and verified against its roots; out-of-bounds
//     arguments must be refused.

import (
	"bytes"
	"context"
	"errors"
	"fmt"
	"io"
	"math/big"
	"os"
	"path/filepath"
	"sort"
	"strings"
	"testing"

	"github.com/celestiaorg/celestia-app/v9/pkg/wrapper"
	libshare "github.com/celestiaorg/go-square/v4/share"
	"github.com/celestiaorg/rsmt2d"

	"github.com/celestiaorg/celestia-node/header"
	"github.com/celestiaorg/celestia-node/share"
	"github.com/celestiaorg/celestia-node/share/eds"
	"github.com/celestiaorg/celestia-node/share/shwap"
	"github.com/celestiaorg/celestia-node/store/file"
	zv "github.com/celestiaorg/celestia-node/zzverif"
)

const c05HeaderPrefix = `From Coq Require Import List ZArith NArith.
From CN Require Import Store.OdsFile Store.ReadPaths.
Import ListNotations.
Open Scope Z_scope.
Definition s (a b : N) := mkS a b.
Arguments s (a b)%N.
Definition p (a : N) := mkS a parity_ns.
Arguments p a%N.
Definition t0 := tail_share.
Definition r (a b c : N) := mkR a b c.
Arguments r (a b c)%N.
Definition pn := parity_ns.
Definition tn := tail_ns.
`

// ---------------------------------------------------------------- blocks

type c05Spec struct {
	Seed  uint64 `json:"seed"`
	K     int    `json:"k"`
	Pad   int    `json:"pad"`
	Empty bool   `json:"empty,omitempty"`
	// Runs, when set, fixes the layout: comma-separated run lengths (in shares) of consecutive namespaces from the start
	// of the square, the rest is tail padding (Pad = K*K - sum). Used for the wide squares whose namespaces span a chosen
	// number of rows (16, 17, well over 16).
	Runs string `json:"runs,omitempty"`
}

type c05Block struct {
	spec    c05Spec
	num     int // global number of the block in this run (heights, directories)
	cls     int // size class: the Coq case files of a class carry only the blocks of that class
	idx     int // index among the blocks of its class
	k       int
	eds     *rsmt2d.ExtendedDataSquare
	roots   *share.AxisRoots
	hash    share.DataHash
	ods     [][]byte
	dict    map[string]uint64
	rdict   map[string]uint64
	queries []libshare.Namespace
	nss     []libshare.Namespace // the namespaces present in the square (tail padding excluded), in square order
	wide    bool                 // a wide square with a designed layout (spec.Runs): targeted reads, see wideReads
}

var c05TailBytes = func() []byte { sh := libshare.TailPaddingShare(); return sh.ToBytes() }()

func c05NsNum(ns []byte) string {
	if bytes.Equal(ns, libshare.ParitySharesNamespace.Bytes()) {
		return "pn"
	}
	if bytes.Equal(ns, libshare.TailPaddingNamespace.Bytes()) {
		return "tn"
	}
	return new(big.Int).SetBytes(ns).String()
}

func (b *c05Block) id(raw []byte) uint64 {
	if bytes.Equal(raw, c05TailBytes) {
		return 0
	}
	if v, ok := b.dict[string(raw)]; ok {
		return v
	}
	v := uint64(len(b.dict) + 1)
	b.dict[string(raw)] = v
	return v
}

// lookup without inserting: unknown bytes get an id no model share has
func (b *c05Block) lookup(raw []byte) uint64 {
	if bytes.Equal(raw, c05TailBytes) {
		return 0
	}
	if v, ok := b.dict[string(raw)]; ok {
		return v
	}
	return 900000000 + uint64(len(raw))
}

func (b *c05Block) rootID(raw []byte) uint64 {
	if v, ok := b.rdict[string(raw)]; ok {
		return v
	}
	v := uint64(len(b.rdict) + 1)
	b.rdict[string(raw)] = v
	return v
}

func (b *c05Block) coqShare(raw []byte) string {
	id := b.id(raw)
	ns := raw[:libshare.NamespaceSize]
	if id == 0 {
		return "t0"
	}
	if bytes.Equal(ns, libshare.ParitySharesNamespace.Bytes()) {
		return fmt.Sprintf("(p %d)", id)
	}
	return fmt.Sprintf("(s %d %s)", id, c05NsNum(ns))
}

func (b *c05Block) coqShares(raw [][]byte) string {
	xs := make([]string, len(raw))
	for i, x := range raw {
		xs[i] = b.coqShare(x)
	}
	return "[" + strings.Join(xs, ";") + "]"
}

func (b *c05Block) coqRoot(raw []byte) string {
	if len(raw) < 2*libshare.NamespaceSize {
		return fmt.Sprintf("(r %d 0 0)", b.rootID(raw))
	}
	return fmt.Sprintf("(r %d %s %s)", b.rootID(raw), c05NsNum(raw[:libshare.NamespaceSize]), c05NsNum(raw[libshare.NamespaceSize:2*libshare.NamespaceSize]))
}

func (b *c05Block) allRoots() [][]byte {
	out := append([][]byte{}, b.roots.RowRoots...)
	return append(out, b.roots.ColumnRoots...)
}

// c05Cons renders a list of N (to be read in N scope). Literals cost ~0.5 ms per element to elaborate, whatever the syntax.
func c05Cons(xs []uint64) string {
	ss := make([]string, len(xs))
	for i, x := range xs {
		ss[i] = fmt.Sprint(x)
	}
	return "[" + strings.Join(ss, ";") + "]"
}

// c05ConsN is c05Cons for use outside N scope.
func c05ConsN(xs []uint64) string { return c05Cons(xs) + "%N" }

// nsCode: namespace as a number; 0 = tail padding, 1 = parity (see ReadPaths.ns_of_code)
func c05NsCode(ns []byte) uint64 {
	if bytes.Equal(ns, libshare.TailPaddingNamespace.Bytes()) {
		return 0
	}
	if bytes.Equal(ns, libshare.ParitySharesNamespace.Bytes()) {
		return 1
	}
	v := new(big.Int).SetBytes(ns)
	if !v.IsUint64() || v.Uint64() < 2 {
		panic("c05: namespace does not fit the compact block form")
	}
	return v.Uint64()
}

// coq renders the block in the compact form of ReadPaths.rawblk (to be read in N scope).
func (b *c05Block) coq() string {
	k := b.k
	var ids, nss, roots, hash []uint64
	for i := 0; i < 2*k; i++ {
		for _, x := range b.eds.Row(uint(i)) {
			ids = append(ids, b.id(x))
		}
	}
	for _, x := range b.ods {
		nss = append(nss, c05NsCode(x[:libshare.NamespaceSize]))
	}
	for _, x := range b.allRoots() {
		roots = append(roots, b.rootID(x), c05NsCode(x[:libshare.NamespaceSize]), c05NsCode(x[libshare.NamespaceSize:2*libshare.NamespaceSize]))
	}
	for _, x := range b.hash {
		hash = append(hash, uint64(x))
	}
	return fmt.Sprintf("mkRaw %d%%nat %s %s %s %s", k, c05Cons(ids), c05Cons(nss), c05Cons(roots), c05Cons(hash))
}

// c05MakeShares builds k*k namespace-ordered shares ending in pad tail-padding shares.
func c05MakeShares(rng *zv.Rand, k, pad int) ([][]byte, []libshare.Namespace) {
	total := k * k
	filledN := total - pad
	// distinct namespaces, sorted
	nns := 1 + rng.Intn(5)
	if nns > filledN {
		nns = filledN
	}
	seen := map[string]bool{}
	var nss []libshare.Namespace
	for len(nss) < nns {
		// small numeric values keep the emitted Coq numerals short; 256.. stays clear of the reserved namespaces so
		// that "below the minimum" exists
		id := make([]byte, 10)
		id[8], id[9] = byte(1+rng.Intn(250)), byte(rng.Intn(256))
		ns := libshare.MustNewV0Namespace(id)
		if !seen[string(ns.Bytes())] {
			seen[string(ns.Bytes())] = true
			nss = append(nss, ns)
		}
	}
	// real squares also carry reserved namespaces in front of the blob namespaces: pay-for-blob transactions and the
	// primary reserved padding that separates them from the blobs
	if filledN >= 3 && rng.Chance(50) {
		for _, ns := range []libshare.Namespace{libshare.PayForBlobNamespace, libshare.PrimaryReservedPaddingNamespace} {
			if len(nss) < filledN && rng.Chance(70) {
				nss = append(nss, ns)
			}
		}
		nns = len(nss)
	}
	sort.Slice(nss, func(i, j int) bool { return nss[i].IsLessThan(nss[j]) })
	// run lengths
	runs := make([]int, nns)
	for i := range runs {
		runs[i] = 1
	}
	for i := nns; i < filledN; i++ {
		runs[rng.Intn(nns)]++
	}
	out := make([][]byte, 0, total)
	for i, ns := range nss {
		for j := 0; j < runs[i]; j++ {
			raw := make([]byte, libshare.ShareSize)
			copy(raw, ns.Bytes())
			copy(raw[libshare.NamespaceSize:], rng.Bytes(24)) // the rest stays zero: smaller emitted files are not needed, ids are what is compared
			raw[libshare.ShareSize-1] = byte(len(out))
			out = append(out, raw)
		}
	}
	for len(out) < total {
		out = append(out, append([]byte{}, c05TailBytes...))
	}
	return out, nss
}

// c05ParseRuns reads c05Spec.Runs.
func c05ParseRuns(runs string) ([]int, int, error) {
	var out []int
	sum := 0
	for _, f := range strings.Split(runs, ",") {
		var n int
		if _, err := fmt.Sscanf(f, "%d", &n); err != nil || n <= 0 {
			return nil, 0, fmt.Errorf("bad run list %q", runs)
		}
		out = append(out, n)
		sum += n
	}
	return out, sum, nil
}

// c05MakeSharesRuns builds k*k namespace-ordered shares: one distinct namespace per run, then tail padding.
func c05MakeSharesRuns(rng *zv.Rand, k int, runs []int) ([][]byte, []libshare.Namespace) {
	total := k * k
	seen := map[string]bool{}
	var nss []libshare.Namespace
	for len(nss) < len(runs) {
		id := make([]byte, 10)
		id[8], id[9] = byte(1+rng.Intn(250)), byte(rng.Intn(256))
		ns := libshare.MustNewV0Namespace(id)
		if !seen[string(ns.Bytes())] {
			seen[string(ns.Bytes())] = true
			nss = append(nss, ns)
		}
	}
	sort.Slice(nss, func(i, j int) bool { return nss[i].IsLessThan(nss[j]) })
	out := make([][]byte, 0, total)
	for i, ns := range nss {
		for j := 0; j < runs[i]; j++ {
			raw := make([]byte, libshare.ShareSize)
			copy(raw, ns.Bytes())
			copy(raw[libshare.NamespaceSize:], rng.Bytes(24))
			raw[libshare.ShareSize-2], raw[libshare.ShareSize-1] = byte(len(out)>>8), byte(len(out))
			out = append(out, raw)
		}
	}
	for len(out) < total {
		out = append(out, append([]byte{}, c05TailBytes...))
	}
	return out, nss
}

// nsRows: the ODS rows that hold at least one share of ns.
func (b *c05Block) nsRows(ns []byte) []int {
	var rows []int
	for i := 0; i < b.k; i++ {
		for j := 0; j < b.k; j++ {
			if bytes.Equal(b.nsOf(i*b.k+j), ns) {
				rows = append(rows, i)
				break
			}
		}
	}
	return rows
}

// c05RowsBucket: histogram bucket for a number of rows; the interesting boundary is 16 (see seeded change C11-c).
func c05RowsBucket(n int) string {
	switch {
	case n == 0:
		return "0"
	case n <= 8:
		return "1-8"
	case n < 16:
		return "9-15"
	case n == 16:
		return "16"
	case n == 17:
		return "17"
	}
	return ">17"
}

func c05NewBlock(spec c05Spec, num int) (*c05Block, error) {
	b := &c05Block{spec: spec, num: num, dict: map[string]uint64{}, rdict: map[string]uint64{}}
	var nss []libshare.Namespace
	if spec.Empty {
		b.k = 1
		b.eds = share.EmptyEDS()
		b.roots = share.EmptyEDSRoots()
		b.ods = [][]byte{b.eds.GetCell(0, 0)}
	} else {
		rng := zv.NewRand(spec.Seed)
		b.k = spec.K
		if spec.Runs != "" {
			runs, sum, err := c05ParseRuns(spec.Runs)
			if err != nil || sum > spec.K*spec.K || spec.K*spec.K-sum != spec.Pad {
				return nil, fmt.Errorf("c05: inconsistent layout %+v (%v)", spec, err)
			}
			b.ods, nss = c05MakeSharesRuns(rng, spec.K, runs)
			b.wide = true
		} else {
			b.ods, nss = c05MakeShares(rng, spec.K, spec.Pad)
		}
		e, err := rsmt2d.ComputeExtendedDataSquare(b.ods, share.DefaultRSMT2DCodec(), wrapper.NewConstructor(uint64(spec.K)))
		if err != nil {
			return nil, err
		}
		b.eds = e
		roots, err := share.NewAxisRoots(e)
		if err != nil {
			return nil, err
		}
		b.roots = roots
	}
	b.hash = b.roots.Hash()
	// dictionary: ODS first, then the rest of the square
	for _, x := range b.ods {
		b.id(x)
	}
	for i := uint(0); i < b.eds.Width(); i++ {
		for _, x := range b.eds.Row(i) {
			b.id(x)
		}
	}
	// namespaces worth asking for: every one present, neighbours, extremes, the reserved ones
	qs := append([]libshare.Namespace{}, nss...)
	for _, ns := range nss {
		raw := append([]byte{}, ns.Bytes()...)
		raw[len(raw)-1]++
		if n, err := libshare.NewNamespaceFromBytes(raw); err == nil {
			qs = append(qs, n)
		}
	}
	qs = append(qs, libshare.MustNewV0Namespace([]byte{0, 0, 0, 0, 0, 0, 0, 0, 1, 0}), libshare.MustNewV0Namespace(bytes.Repeat([]byte{0xff}, 10)),
		libshare.PayForBlobNamespace, libshare.PrimaryReservedPaddingNamespace, libshare.TailPaddingNamespace, libshare.ParitySharesNamespace)
	b.queries = qs
	b.nss = nss
	return b, nil
}

// ---------------------------------------------------------------- reads

type c05Read struct {
	Kind string `json:"kind"` // sample half rownd nd range shares reader roots hash size
	I    int    `json:"i,omitempty"`
	J    int    `json:"j,omitempty"`
	Col  bool   `json:"col,omitempty"`
	Ns   []byte `json:"ns,omitempty"`
}

func (rd c05Read) coqPath() string {
	z := func(x int) string {
		if x < 0 {
			return fmt.Sprintf("(%d)", x)
		}
		return fmt.Sprint(x)
	}
	switch rd.Kind {
	case "sample":
		return "PSample " + z(rd.I) + " " + z(rd.J)
	case "half":
		ax := "Row"
		if rd.Col {
			ax = "Col"
		}
		return "PAxisHalf " + ax + " " + z(rd.I)
	case "rownd":
		return "PRowNd " + c05NsArg(rd.Ns) + " " + z(rd.I)
	case "nd":
		return "PNd " + c05NsArg(rd.Ns)
	case "range":
		return "PRange " + z(rd.I) + " " + z(rd.J)
	case "shares":
		return "PShares"
	case "reader":
		return "PReader"
	case "roots":
		return "PRoots"
	case "hash":
		return "PHash"
	}
	return "PSize"
}

func c05NsArg(ns []byte) string {
	n := c05NsNum(ns)
	if n == "pn" || n == "tn" {
		return n
	}
	return n + "%N"
}

func c05IDs(xs []uint64) string {
	s := make([]string, len(xs))
	for i, x := range xs {
		s[i] = fmt.Sprint(x)
	}
	return "[" + strings.Join(s, ";") + "]%N"
}

func (b *c05Block) idsOf(shs []libshare.Share) []uint64 {
	out := make([]uint64, len(shs))
	for i, sh := range shs {
		out[i] = b.lookup(sh.ToBytes())
	}
	return out
}

func c05Rows(rows [][]uint64) string {
	s := make([]string, len(rows))
	for i, x := range rows {
		s[i] = c05IDs(x)
	}
	return "[" + strings.Join(s, ";") + "]"
}

// c05Env is one way of reaching a stored block.
type c05Env struct {
	rep   string // RepMem RepOds RepOdsQ4 RepQ4Removed
	layer string // store cached getter plain
	acc   eds.AccessorStreamer
	get   *Getter
	hdr   *header.ExtendedHeader
}

func (e *c05Env) coqLayer() string {
	if e.layer == "plain" {
		return "LPlain"
	}
	return "LStore"
}

type c05Ctx struct {
	r    *zv.Run
	t    *testing.T
	ctx  context.Context
	hist []c05Read // every read issued so far against the current (block, representation, layer), the current one last
	// l3only, when set, says which histories are checked by the implementation oracle only (no Coq case): the model
	// evaluation of a wide square costs seconds per case where the parity quadrants are needed
	l3only func(b *c05Block, rep, layer string) bool
}

func (c *c05Ctx) viol(b *c05Block, e *c05Env, rd c05Read, class, msg string) {
	sig := class + ":" + rd.Kind + ":" + e.rep + ":" + e.layer
	c.r.Violation(sig, fmt.Sprintf("block k=%d pad=%d empty=%v, %s via %s, read %s: %s", b.k, b.spec.Pad, b.spec.Empty, e.rep, e.layer, rd.coqPath(), msg),
		map[string]any{"spec": b.spec, "rep": e.rep, "layer": e.layer, "reads": append([]c05Read{}, c.hist...)})
}

func c05SharesEq(shs []libshare.Share, raw [][]byte) bool {
	if len(shs) != len(raw) {
		return false
	}
	for i := range shs {
		if !bytes.Equal(shs[i].ToBytes(), raw[i]) {
			return false
		}
	}
	return true
}

func (b *c05Block) nsOf(i int) []byte { return b.ods[i][:libshare.NamespaceSize] }

// rowRangeContains: is ns within [first, last] namespace of ODS row i (rows of the lower half hold parity only)
func (b *c05Block) rowRangeContains(ns []byte, i int) bool {
	if i >= b.k {
		return bytes.Equal(ns, libshare.ParitySharesNamespace.Bytes())
	}
	return bytes.Compare(ns, b.nsOf(i*b.k)) >= 0 && bytes.Compare(ns, b.nsOf(i*b.k+b.k-1)) <= 0
}

func (b *c05Block) rowShares(ns []byte, i int) [][]byte {
	var out [][]byte
	if i >= b.k {
		return out
	}
	for j := 0; j < b.k; j++ {
		if bytes.Equal(b.nsOf(i*b.k+j), ns) {
			out = append(out, b.ods[i*b.k+j])
		}
	}
	return out
}

func c05Flatten(rows [][]libshare.Share) []libshare.Share {
	var out []libshare.Share
	for _, x := range rows {
		out = append(out, x...)
	}
	return out
}

// do performs one read, checks it against the square that was put (L3) and returns the observation as a Coq term.
func (c *c05Ctx) do(b *c05Block, e *c05Env, rd c05Read) string {
	ctx := c.ctx
	k, size := b.k, 2*b.k
	obs := "OErr"
	pan := zv.Recover(func() {
		switch rd.Kind {
		case "sample":
			inb := rd.I >= 0 && rd.I < size && rd.J >= 0 && rd.J < size
			var smp shwap.Sample
			var err error
			if e.get != nil {
				var ss []shwap.Sample
				ss, err = e.get.GetSamples(ctx, e.hdr, []shwap.SampleCoords{{Row: rd.I, Col: rd.J}})
				if err == nil {
					smp = ss[0]
				}
			} else {
				smp, err = e.acc.Sample(ctx, shwap.SampleCoords{Row: rd.I, Col: rd.J})
			}
			if err != nil {
				if inb {
					c.viol(b, e, rd, "read-failed", err.Error())
				}
				return
			}
			if !inb {
				c.viol(b, e, rd, "oob-served", "a sample outside the square was served")
				return
			}
			obs = fmt.Sprintf("OShare %d%%N", b.lookup(smp.Share.ToBytes()))
			if !bytes.Equal(smp.Share.ToBytes(), b.eds.GetCell(uint(rd.I), uint(rd.J))) {
				c.viol(b, e, rd, "wrong-read", "sample share differs from the square that was put")
			} else if err := smp.Verify(b.roots, rd.I, rd.J); err != nil {
				c.viol(b, e, rd, "unverifiable", "sample does not verify against the roots: "+err.Error())
			}
		case "half":
			inb := rd.I >= 0 && rd.I < size
			ax := rsmt2d.Row
			if rd.Col {
				ax = rsmt2d.Col
			}
			var half shwap.AxisHalf
			var err error
			if e.get != nil {
				var row shwap.Row
				row, err = e.get.GetRow(ctx, e.hdr, rd.I)
				if err == nil {
					pb := row.ToProto() // before Verify: verification extends the row in place and forgets the side
					shs, _ := shwap.SharesFromProto(pb.SharesHalf)
					half = shwap.AxisHalf{Shares: shs, IsParity: pb.GetHalfSide().String() == "RIGHT"}
					if verr := row.Verify(b.roots, rd.I); verr != nil && rd.I >= 0 && rd.I < size {
						c.viol(b, e, rd, "unverifiable", "row does not verify: "+verr.Error())
					}
				}
			} else {
				half, err = e.acc.AxisHalf(ctx, ax, rd.I)
			}
			if err != nil {
				if inb {
					c.viol(b, e, rd, "read-failed", err.Error())
				}
				return
			}
			if !inb {
				c.viol(b, e, rd, "oob-served", "an axis outside the square was served")
				return
			}
			obs = fmt.Sprintf("OHalf %s %s", zv.Bool(half.IsParity), c05IDs(b.idsOf(half.Shares)))
			var full [][]byte
			if rd.Col {
				full = b.eds.Col(uint(rd.I))
			} else {
				full = b.eds.Row(uint(rd.I))
			}
			want := full[:k]
			if half.IsParity {
				want = full[k:]
			}
			if !c05SharesEq(half.Shares, want) {
				c.viol(b, e, rd, "wrong-read", "axis half differs from the square that was put")
			} else if ext, err := half.Extended(); err != nil || !c05SharesEq(ext, full) {
				c.viol(b, e, rd, "wrong-read", "axis half does not extend to the axis that was put")
			}
		case "rownd":
			ns, nerr := libshare.NewNamespaceFromBytes(rd.Ns)
			if nerr != nil {
				return
			}
			inb := rd.I >= 0 && rd.I < size
			rnd, err := e.acc.RowNamespaceData(ctx, ns, rd.I)
			valid := ns.ValidateForData() == nil
			if err != nil {
				if inb && valid && b.rowRangeContains(rd.Ns, rd.I) {
					c.viol(b, e, rd, "read-failed", err.Error())
				}
				return
			}
			if !inb || (!valid && e.layer != "plain") {
				c.viol(b, e, rd, "oob-served", "namespace data for an invalid row / namespace was served")
				return
			}
			obs = "OShares " + c05IDs(b.idsOf(rnd.Shares))
			if !c05SharesEq(rnd.Shares, b.rowShares(rd.Ns, rd.I)) {
				c.viol(b, e, rd, "wrong-read", "row namespace data differs from the shares of that namespace in the row")
			} else if valid && b.rowRangeContains(rd.Ns, rd.I) {
				if err := rnd.Verify(b.roots, ns, rd.I); err != nil {
					c.viol(b, e, rd, "unverifiable", "row namespace data does not verify: "+err.Error())
				}
			}
		case "nd":
			ns, nerr := libshare.NewNamespaceFromBytes(rd.Ns)
			if nerr != nil {
				return
			}
			var nd shwap.NamespaceData
			var err error
			if e.get != nil {
				nd, err = e.get.GetNamespaceData(ctx, e.hdr, ns)
			} else {
				nd, err = eds.NamespaceData(ctx, e.acc, ns)
			}
			valid := ns.ValidateForData() == nil
			if err != nil {
				if valid {
					c.viol(b, e, rd, "read-failed", err.Error())
				}
				return
			}
			if !valid {
				// parity / tail padding namespaces select no data rows for a data request; serving rows is a mis-serve
				if len(nd.Flatten()) != 0 {
					c.viol(b, e, rd, "oob-served", "namespace data for a non-data namespace was served")
				}
			}
			rows := make([][]uint64, len(nd))
			for i := range nd {
				rows[i] = b.idsOf(nd[i].Shares)
			}
			obs = "ORows " + c05Rows(rows)
			c.r.Count("nd_rows", c05RowsBucket(len(nd)))
			var want [][]byte
			for i := 0; i < k; i++ {
				want = append(want, b.rowShares(rd.Ns, i)...)
			}
			// row by row: one entry per row whose root range contains the namespace, in row order, each holding that
			// row's shares of the namespace (a namespace spanning many rows must not lose or reorder any of them)
			var wantRows []int
			if valid {
				for i := 0; i < k; i++ {
					if b.rowRangeContains(rd.Ns, i) {
						wantRows = append(wantRows, i)
					}
				}
			}
			if !c05SharesEq(nd.Flatten(), want) {
				c.viol(b, e, rd, "wrong-read", fmt.Sprintf("namespace data differs from the shares of that namespace in the square (%d rows served, the namespace is within the range of %d rows)", len(nd), len(wantRows)))
			} else if valid && len(nd) != len(wantRows) {
				c.viol(b, e, rd, "wrong-read", fmt.Sprintf("namespace data has %d rows, the namespace is within the range of %d rows", len(nd), len(wantRows)))
			} else if bad := func() int {
				for i := range wantRows {
					if valid && !c05SharesEq(nd[i].Shares, b.rowShares(rd.Ns, wantRows[i])) {
						return i
					}
				}
				return -1
			}(); bad >= 0 {
				c.viol(b, e, rd, "wrong-read", fmt.Sprintf("namespace data entry %d does not hold the shares of row %d", bad, wantRows[bad]))
			} else if valid {
				if err := nd.Verify(b.roots, ns); err != nil {
					c.viol(b, e, rd, "unverifiable", "namespace data does not verify: "+err.Error())
				}
			}
		case "range":
			inb := rd.I >= 0 && rd.I < rd.J && rd.J <= k*k
			var rng shwap.RangeNamespaceData
			var err error
			if e.get != nil {
				rng, err = e.get.GetRangeNamespaceData(ctx, e.hdr, rd.I, rd.J)
			} else {
				rng, err = e.acc.RangeNamespaceData(ctx, rd.I, rd.J)
			}
			sameNs := inb
			if inb {
				for x := rd.I; x < rd.J; x++ {
					if !bytes.Equal(b.nsOf(x), b.nsOf(rd.I)) {
						sameNs = false
					}
				}
			}
			if err != nil {
				if sameNs {
					c.viol(b, e, rd, "read-failed", err.Error())
				}
				return
			}
			if !inb {
				c.viol(b, e, rd, "oob-served", "a share range outside the original square was served")
				return
			}
			rows := make([][]uint64, len(rng.Shares))
			for i := range rng.Shares {
				rows[i] = b.idsOf(rng.Shares[i])
			}
			obs = "ORows " + c05Rows(rows)
			if !c05SharesEq(c05Flatten(rng.Shares), b.ods[rd.I:rd.J]) {
				c.viol(b, e, rd, "wrong-read", "range data differs from the shares of the square")
			} else {
				from := shwap.SampleCoords{Row: rd.I / k, Col: rd.I % k}
				to := shwap.SampleCoords{Row: (rd.J - 1) / k, Col: (rd.J - 1) % k}
				if err := rng.VerifyInclusion(from, to, k, b.roots.RowRoots[from.Row:to.Row+1]); err != nil {
					c.viol(b, e, rd, "unverifiable", "range data does not verify: "+err.Error())
				}
			}
		case "shares":
			var shs []libshare.Share
			var err error
			if e.get != nil {
				var sq *rsmt2d.ExtendedDataSquare
				sq, err = e.get.GetEDS(ctx, e.hdr)
				if err == nil {
					if !sq.Equals(b.eds) {
						c.viol(b, e, rd, "wrong-read", "GetEDS returns a different square")
					}
					shs, err = libshare.FromBytes(sq.FlattenedODS())
				}
			} else {
				shs, err = e.acc.Shares(ctx)
			}
			if err != nil {
				c.viol(b, e, rd, "read-failed", err.Error())
				return
			}
			obs = "OShares " + c05IDs(b.idsOf(shs))
			if !c05SharesEq(shs, b.ods) {
				c.viol(b, e, rd, "wrong-read", "Shares differs from the original square")
			}
		case "reader":
			rdr, err := e.acc.Reader()
			if err != nil {
				c.viol(b, e, rd, "read-failed", err.Error())
				return
			}
			raw, err := io.ReadAll(rdr)
			if err != nil {
				c.viol(b, e, rd, "read-failed", err.Error())
				return
			}
			var got []uint64
			for off := 0; off+libshare.ShareSize <= len(raw); off += libshare.ShareSize {
				got = append(got, b.lookup(raw[off:off+libshare.ShareSize]))
			}
			if len(raw)%libshare.ShareSize != 0 {
				got = append(got, 900000001)
			}
			obs = "OShares " + c05IDs(got)
			// the stream, completed by ReadShares the way every consumer does, must be the original square
			shs, err := eds.ReadShares(bytes.NewReader(raw), libshare.ShareSize, k)
			if err != nil || !c05SharesEq(shs, b.ods) {
				c.viol(b, e, rd, "wrong-read", "streamed ODS differs from the original square")
			} else if e.layer != "plain" && len(raw) != k*k*libshare.ShareSize {
				c.viol(b, e, rd, "wrong-read", "store reader does not stream the whole original square")
			} else if acc2, err := eds.ReadAccessor(ctx, bytes.NewReader(raw), b.roots); err != nil || !acc2.ExtendedDataSquare.Equals(b.eds) {
				c.viol(b, e, rd, "unverifiable", "streamed ODS does not re-import to the square that was put")
			}
		case "roots":
			roots, err := e.acc.AxisRoots(ctx)
			if err != nil {
				c.viol(b, e, rd, "read-failed", err.Error())
				return
			}
			all := append(append([][]byte{}, roots.RowRoots...), roots.ColumnRoots...)
			ids := make([]uint64, len(all))
			for i, x := range all {
				if v, ok := b.rdict[string(x)]; ok {
					ids[i] = v
				} else {
					ids[i] = 900000002
				}
			}
			obs = "ORoots " + c05IDs(ids)
			if !roots.Equals(b.roots) {
				c.viol(b, e, rd, "wrong-read", "axis roots differ")
			}
		case "hash":
			h, err := e.acc.DataHash(ctx)
			if err != nil {
				c.viol(b, e, rd, "read-failed", err.Error())
				return
			}
			obs = "OHash " + zv.Bytes(h)
			if !bytes.Equal(h, b.hash) {
				c.viol(b, e, rd, "wrong-read", "data hash differs")
			}
		case "size":
			n, err := e.acc.Size(ctx)
			if err != nil {
				c.viol(b, e, rd, "read-failed", err.Error())
				return
			}
			obs = fmt.Sprintf("OSize %d", n)
			if n != size {
				c.viol(b, e, rd, "wrong-read", "size differs")
			}
		}
	})
	if pan != "" {
		c.viol(b, e, rd, "panic", pan)
		return "OErr"
	}
	return obs
}

// reads enumerates (exhaustive) or samples the requests for a block.
func (b *c05Block) reads(rng *zv.Rand, exhaustive bool, budget int, plain bool) []c05Read {
	k, size := b.k, 2*b.k
	var out []c05Read
	idxs := func(n int, oob bool) []int {
		var xs []int
		if exhaustive || n <= 8 {
			for i := 0; i < n; i++ {
				xs = append(xs, i)
			}
		} else {
			xs = append(xs, 0, 1, n/2-1, n/2, n/2+1, n-1, rng.Intn(n), rng.Intn(n))
		}
		if oob && !plain {
			xs = append(xs, -1, n, n+1, 2*n, -n, 1<<20)
		}
		return xs
	}
	oob := []int{-1, size, size + 1, 2 * size, -size, 1 << 20}
	for _, i := range idxs(size, false) {
		for _, j := range idxs(size, false) {
			out = append(out, c05Read{Kind: "sample", I: i, J: j})
		}
	}
	if !plain {
		for n, o := range oob { // out of bounds on either side, and on both
			v := rng.Intn(size)
			out = append(out, c05Read{Kind: "sample", I: o, J: v}, c05Read{Kind: "sample", I: v, J: o}, c05Read{Kind: "sample", I: o, J: oob[(n+1)%len(oob)]})
		}
	}
	for _, i := range idxs(size, true) {
		out = append(out, c05Read{Kind: "half", I: i}, c05Read{Kind: "half", I: i, Col: true})
	}
	for _, ns := range b.queries {
		if plain && ns.ValidateForData() != nil {
			continue
		}
		for _, i := range idxs(size, false) {
			out = append(out, c05Read{Kind: "rownd", I: i, Ns: ns.Bytes()})
		}
		if !plain {
			out = append(out, c05Read{Kind: "rownd", I: oob[rng.Intn(len(oob))], Ns: ns.Bytes()}, c05Read{Kind: "rownd", I: size, Ns: ns.Bytes()})
			out = append(out, c05Read{Kind: "nd", Ns: ns.Bytes()})
		}
	}
	tot := k * k
	if exhaustive || tot <= 16 {
		for f := 0; f < tot; f++ {
			for t := f + 1; t <= tot; t++ {
				out = append(out, c05Read{Kind: "range", I: f, J: t})
			}
		}
	} else {
		for n := 0; n < 24; n++ {
			f := rng.Intn(tot)
			t := f + 1 + rng.Intn(tot-f)
			if n%3 == 0 { // short ranges are the ones that stay inside one namespace
				t = f + 1 + rng.Intn(3)
				if t > tot {
					t = tot
				}
			}
			out = append(out, c05Read{Kind: "range", I: f, J: t})
		}
		out = append(out, c05Read{Kind: "range", I: 0, J: tot}, c05Read{Kind: "range", I: tot - 1, J: tot}, c05Read{Kind: "range", I: 0, J: 1})
	}
	if !plain {
		for _, ft := range [][2]int{{-1, 1}, {0, 0}, {1, 1}, {2, 1}, {0, tot + 1}, {tot, tot + 1}, {tot - 1, tot + 1}, {-2, -1}, {tot + 5, tot + 9}} {
			out = append(out, c05Read{Kind: "range", I: ft[0], J: ft[1]})
		}
	}
	for _, kd := range []string{"shares", "reader", "roots", "hash", "size", "shares", "reader"} {
		out = append(out, c05Read{Kind: kd})
	}
	// shuffle (Fisher-Yates), then cut to the budget
	for i := len(out) - 1; i > 0; i-- {
		j := rng.Intn(i + 1)
		out[i], out[j] = out[j], out[i]
	}
	if budget > 0 && len(out) > budget {
		out = out[:budget]
	}
	return out
}

// wideReads: the requests for a wide square with a designed layout. Namespace data for every namespace worth asking
// for (present ones spanning 16 / 17 / many more rows, neighbours, extremes, reserved), row namespace data at the rows
// where each present namespace begins and ends and around its 16th row, plus a sample of everything else.
func (b *c05Block) wideReads(rng *zv.Rand, budget int, plain bool) []c05Read {
	var out []c05Read
	for _, ns := range b.queries {
		if plain && ns.ValidateForData() != nil {
			continue
		}
		out = append(out, c05Read{Kind: "nd", Ns: ns.Bytes()})
	}
	for _, ns := range b.nss {
		rows := b.nsRows(ns.Bytes())
		seen := map[int]bool{}
		for _, x := range []int{0, 15, 16, 17, len(rows) - 1, rng.Intn(len(rows))} {
			if x >= 0 && x < len(rows) && !seen[rows[x]] {
				seen[rows[x]] = true
				out = append(out, c05Read{Kind: "rownd", I: rows[x], Ns: ns.Bytes()})
			}
		}
	}
	out = append(out, b.reads(rng, false, budget, plain)...)
	for i := len(out) - 1; i > 0; i-- {
		j := rng.Intn(i + 1)
		out[i], out[j] = out[j], out[i]
	}
	return out
}

// history runs the reads in chunks; every chunk is one history on one accessor instance (opened by open) = one case.
func (c *c05Ctx) history(g *zv.Group, b *c05Block, rep, layer string, reads []c05Read, chunk int, open func() (*c05Env, func())) {
	c.hist = nil
	for lo := 0; lo < len(reads); lo += chunk {
		hi := lo + chunk
		if hi > len(reads) {
			hi = len(reads)
		}
		e, closeFn := open()
		if e == nil {
			c.r.Violation("open-failed:"+rep+":"+layer, fmt.Sprintf("block k=%d pad=%d: stored block cannot be opened as %s via %s", b.k, b.spec.Pad, rep, layer),
				map[string]any{"spec": b.spec, "rep": rep, "layer": layer})
			return
		}
		e.rep, e.layer = rep, layer
		var items []string
		key := ""
		for _, rd := range reads[lo:hi] {
			if e.get != nil && (rd.Kind == "rownd" || rd.Kind == "reader" || rd.Kind == "roots" || rd.Kind == "hash" || rd.Kind == "size" || (rd.Kind == "half" && rd.Col)) {
				continue // not part of the Getter API
			}
			c.hist = append(c.hist, rd)
			o := c.do(b, e, rd)
			if rd.Kind == "nd" && layer == "plain" {
				// eds.NamespaceData over a bare accessor: checked against the square and the roots (L3); the model has
				// this request only on the accessor the store hands out
				c.r.Count("read", "nd(bare accessor, L3 only)")
				continue
			}
			items = append(items, "("+rd.coqPath()+", "+o+")")
			c.r.Count("read", rd.Kind)
			c.r.Count("verdict", map[bool]string{true: "refused", false: "served"}[o == "OErr"])
			if o != "OErr" {
				key = "x"
			}
		}
		closeFn()
		if len(items) == 0 {
			continue
		}
		if g == nil || (c.l3only != nil && c.l3only(b, rep, layer)) {
			c.r.Count("l3_only_history", rep+":"+layer)
			continue
		}
		term := fmt.Sprintf("CReads %d %s %s [%s]", b.idx, rep, e.coqLayer(), strings.Join(items, "; "))
		g.Case(term, map[string]any{"spec": b.spec, "rep": rep, "layer": layer, "reads": reads[lo:hi]}, key)
		c.r.Count("rep", rep)
		c.r.Count("layer", layer)
	}
}

// ---------------------------------------------------------------- files as atoms

// fileRaw cuts a file into hdrLen header bytes, nRoots 90-byte roots and 512-byte shares (all as dictionary ids),
// and reports how many bytes are left over.
func (b *c05Block) fileRaw(raw []byte, hdrLen, nRoots int) (hdr, roots, shares []uint64, rest int) {
	off := 0
	for ; off < hdrLen && off < len(raw); off++ {
		hdr = append(hdr, uint64(raw[off]))
	}
	for i := 0; i < nRoots && off+share.AxisRootSize <= len(raw); i++ {
		x := raw[off : off+share.AxisRootSize]
		if v, ok := b.rdict[string(x)]; ok {
			roots = append(roots, v)
		} else {
			roots = append(roots, 900000002)
		}
		off += share.AxisRootSize
	}
	for off+libshare.ShareSize <= len(raw) {
		shares = append(shares, b.lookup(raw[off:off+libshare.ShareSize]))
		off += libshare.ShareSize
	}
	return hdr, roots, shares, len(raw) - off
}

// ---------------------------------------------------------------- the test

func c05Specs(r *zv.Run) []c05Spec {
	rng := r.Rand().Fork(5)
	var specs []c05Spec
	add := func(k, pad int) { specs = append(specs, c05Spec{Seed: rng.U64(), K: k, Pad: pad}) }
	specs = append(specs, c05Spec{Empty: true})
	for _, k := range []int{1, 2, 4} {
		for pad := 0; pad < k*k; pad++ { // width 1 with one padding share is the empty block (above)
			add(k, pad)
		}
	}
	if r.Thorough() {
		// the model evaluation in Coq is quadratic in the width (a shard of 64-wide squares did not finish within the
		// 50-minute shard limit): width 64 is covered by the designed wide squares below only, width 32 by three paddings
		for _, k := range []int{8, 16} {
			for _, pad := range []int{0, 1, k - 1, k, k + 1, k*k - 1, rng.Intn(k * k), rng.Intn(k * k)} {
				add(k, pad)
			}
		}
		for _, pad := range []int{0, 33, rng.Intn(32 * 32)} {
			add(32, pad)
		}
	} else {
		// the model evaluation in Coq is quadratic in the width: the quick tier keeps the big squares few
		for _, pad := range []int{0, 9, 63, 1 + rng.Intn(62)} {
			add(8, pad)
		}
		add(16, 1+rng.Intn(254))
	}
	// wide squares with a designed layout: eds.NamespaceData fans out over the rows of a namespace, so namespaces that
	// span exactly 16, exactly 17 and well over 16 rows must be read back whole (seeded change C11-c: rows processed in
	// batches of 16 with the result written at the position inside the batch)
	wrng := r.Rand().Fork(0x5c05)
	widths := []int{32}
	if r.Thorough() {
		widths = []int{32, 64}
	}
	for _, k := range widths {
		specs = append(specs, c05WideSpec(wrng, k, "long"), c05WideSpec(wrng, k, "16+17"))
	}
	return specs
}

// c05WideSpec lays out a k-wide square (k >= 32).
//
//	"long":  a short first namespace, then one namespace spanning 19..k-3 rows, then a third one, then tail padding
//	"16+17": a first namespace ending inside row 0, one spanning exactly 16 rows (row 0 .. row 15), one spanning exactly
//	         17 rows (row 15 .. row 31), then another namespace and/or tail padding
func c05WideSpec(rng *zv.Rand, k int, kind string) c05Spec {
	var runs []int
	switch kind {
	case "long":
		first := 1 + rng.Intn(2*k)
		nrows := 19 + rng.Intn(k-3-19+1)
		startRow, startCol := first/k, first%k
		endRow, endCol := startRow+nrows-1, rng.Intn(k)
		long := endRow*k + endCol + 1 - (startRow*k + startCol)
		runs = []int{first, long}
		if rest := k*k - first - long; rest > 1 {
			runs = append(runs, 1+rng.Intn(rest-1))
		}
	default:
		c0 := 1 + rng.Intn(k-1) // the 16-row namespace starts at (0, c0)
		c1 := rng.Intn(k - 1)   // and ends at (15, c1), c1 < k-1
		c2 := rng.Intn(k)       // the 17-row namespace runs from (15, c1+1) to (31, c2)
		n16 := 15*k + c1 + 1 - c0
		n17 := 31*k + c2 + 1 - (15*k + c1 + 1)
		runs = []int{c0, n16, n17}
		if rest := k*k - c0 - n16 - n17; rest > 1 && rng.Bool() {
			runs = append(runs, 1+rng.Intn(rest-1))
		}
	}
	sum := 0
	ss := make([]string, len(runs))
	for i, n := range runs {
		sum += n
		ss[i] = fmt.Sprint(n)
	}
	return c05Spec{Seed: rng.U64(), K: k, Pad: k*k - sum, Runs: strings.Join(ss, ",")}
}

func TestVerifC05(t *testing.T) {
	r := zv.Start(t, "C05")
	defer r.Finish()
	ctx := context.Background()
	c := &c05Ctx{r: r, t: t, ctx: ctx}

	var replay struct {
		Spec  c05Spec   `json:"spec"`
		Rep   string    `json:"rep"`
		Layer string    `json:"layer"`
		Reads []c05Read `json:"reads"`
	}
	specs := c05Specs(r)
	isReplay := r.ReplayInput(&replay)
	if isReplay {
		specs = []c05Spec{replay.Spec}
	}

	var blocks []*c05Block
	// classes of blocks: every class is one group of Coq case files carrying only its own blocks; every wide square
	// is a class of its own (its literal is large, and the shards are evaluated in parallel)
	perClass := [][]*c05Block{nil, nil}
	classNames := []string{"small", "big"}
	for i, sp := range specs {
		b, err := c05NewBlock(sp, i)
		if err != nil {
			t.Fatalf("building block %+v: %v", sp, err)
		}
		b.num = i
		switch {
		case b.wide:
			b.cls = len(perClass)
			perClass = append(perClass, nil)
			classNames = append(classNames, fmt.Sprintf("wide%d", b.cls-2))
		case b.k > 4:
			b.cls = 1
		}
		b.idx = len(perClass[b.cls])
		perClass[b.cls] = append(perClass[b.cls], b)
		blocks = append(blocks, b)
	}
	groups := make([]*zv.Group, len(perClass))
	for cls, name := range classNames {
		var hb strings.Builder
		hb.WriteString(c05HeaderPrefix)
		hb.WriteString("Open Scope N_scope.\n")
		names := make([]string, len(perClass[cls]))
		for i, b := range perClass[cls] {
			names[i] = fmt.Sprintf("raw%d", i)
			fmt.Fprintf(&hb, "Definition raw%d : rawblk := %s.\n", i, b.coq())
		}
		hb.WriteString("Close Scope N_scope.\nDefinition raws : list rawblk := [" + strings.Join(names, ";") + "].\n")
		groups[cls] = r.Group(name, hb.String(), "ccase", "mismatches_raw raws")
	}

	// wide squares, quick tier (and the 64-wide ones in the thorough tier, where a case on the in-memory representation
	// costs about a minute): the model is run on the representations that are cheap to evaluate (ODS-only and Q4-pruned
	// files, every layer) and on one history each of the in-memory and the ODS+Q4 representation; the other histories of
	// these squares are L3 only (compared with the square that was put and verified against its roots)
	sharedPhase := false
	if !isReplay {
		c.l3only = func(b *c05Block, rep, layer string) bool {
			if !b.wide || (r.Thorough() && b.k < 64) {
				return false
			}
			if sharedPhase {
				return true
			}
			switch rep {
			case "RepOds", "RepQ4Removed":
				return false
			case "RepMem":
				return layer != "store"
			}
			return layer != "getter"
		}
	}

	base := t.TempDir()
	sharedDir := filepath.Join(base, "shared")
	must := func(err error) {
		if err != nil {
			t.Fatal(err)
		}
	}
	must(os.MkdirAll(sharedDir, 0o755))
	// a store whose recent cache holds one block: the previous block is always evicted to its files
	shared, err := NewStore(&Parameters{RecentBlocksCacheSize: 1}, sharedDir)
	must(err)
	var prev *c05Block

	for _, b := range blocks {
		g, gf := groups[b.cls], groups[b.cls]
		rng := zv.NewRand(b.spec.Seed ^ 0xc05)
		exhaustive := b.k <= 4
		budget := r.N(48, 400)
		if exhaustive {
			budget = 0
			if b.k == 4 && !r.Thorough() {
				budget = 96
			}
		}
		chunk := 24
		height := uint64(100 + b.num)
		eh := &header.ExtendedHeader{RawHeader: header.RawHeader{Height: int64(height)}, DAH: b.roots}
		r.Count("width", fmt.Sprint(b.k))
		r.Count("padding", fmt.Sprintf("k%d:%s", b.k, map[bool]string{true: "none", false: "some"}[b.spec.Pad == 0 && !b.spec.Empty]))
		for _, ns := range b.nss {
			r.Count("ns_rows_in_block", fmt.Sprintf("k%d:%s", b.k, c05RowsBucket(len(b.nsRows(ns.Bytes())))))
		}
		if b.wide {
			chunk = 64 // one history per accessor instance
		}
		rds := func(plain bool) []c05Read {
			if isReplay {
				return replay.Reads
			}
			if b.wide {
				if b.k >= 64 {
					return b.wideReads(rng, 16, plain)
				}
				return b.wideReads(rng, r.N(16, 160), plain)
			}
			return b.reads(rng, exhaustive, budget, plain)
		}
		want := func(rep, layer string) bool {
			return !isReplay || (replay.Rep == rep && replay.Layer == layer)
		}
		byHeight := func(s interface {
			GetByHeight(context.Context, uint64) (eds.AccessorStreamer, error)
		}) func() (*c05Env, func()) {
			return func() (*c05Env, func()) {
				acc, err := s.GetByHeight(ctx, height)
				if err != nil {
					return nil, nil
				}
				return &c05Env{acc: acc}, func() { acc.Close() }
			}
		}
		getter := func(s *Store) func() (*c05Env, func()) {
			return func() (*c05Env, func()) {
				acc, err := s.GetByHeight(ctx, height)
				if err != nil {
					return nil, nil
				}
				return &c05Env{acc: acc, get: NewGetter(s), hdr: eh}, func() { acc.Close() }
			}
		}

		dirA := filepath.Join(base, fmt.Sprintf("a%d", b.num))
		must(os.MkdirAll(dirA, 0o755))
		s1, err := NewStore(&Parameters{RecentBlocksCacheSize: 10}, dirA)
		must(err)
		if err := s1.PutODSQ4(ctx, b.roots, height, b.eds); err != nil {
			r.Violation("put-failed", fmt.Sprintf("PutODSQ4 k=%d pad=%d: %v", b.k, b.spec.Pad, err), map[string]any{"spec": b.spec})
			continue
		}
		pathODS := s1.hashToPath(b.hash, odsFileExt)
		pathQ4 := s1.hashToPath(b.hash, q4FileExt)

		// ---- files, byte for byte at share granularity
		if !isReplay {
			rawODS, err1 := os.ReadFile(pathODS)
			rawQ4, err2 := os.ReadFile(pathQ4)
			if err1 != nil || err2 != nil {
				r.Violation("files-missing", fmt.Sprintf("k=%d pad=%d: block files missing after put: %v %v", b.k, b.spec.Pad, err1, err2), map[string]any{"spec": b.spec})
			} else {
				fh, fr, fs, rest := b.fileRaw(rawODS, 65, 4*b.k)
				_, _, qs, qrest := b.fileRaw(rawQ4, 0, 0)
				gf.Case(fmt.Sprintf("CFilesRaw %d %s %s %s %d%%N %d %s %d%%N %d", b.idx, c05ConsN(fh), c05ConsN(fr), c05ConsN(fs), rest, len(rawODS), c05ConsN(qs), qrest, len(rawQ4)),
					map[string]any{"spec": b.spec, "ods_size": len(rawODS), "q4_size": len(rawQ4)}, "files")
				nFilled := 0
				for nFilled < len(b.ods) && !bytes.Equal(b.ods[nFilled][:libshare.NamespaceSize], libshare.TailPaddingNamespace.Bytes()) {
					nFilled++
				}
				if len(rawODS) != 65+4*b.k*share.AxisRootSize+nFilled*libshare.ShareSize {
					r.Violation("file-size", fmt.Sprintf("k=%d pad=%d: ODS file has %d bytes, %d shares before tail padding", b.k, b.spec.Pad, len(rawODS), nFilled), map[string]any{"spec": b.spec})
				}
				r.Count("files", "ods+q4")
			}
		}

		if !b.spec.Empty {
			// ---- in memory: the recent cache serves the rsmt2d square
			if want("RepMem", "store") {
				c.history(g, b, "RepMem", "store", rds(false), chunk, byHeight(s1))
			}
			if want("RepMem", "cached") {
				cs1, err := s1.WithCache("c05", 4)
				must(err)
				c.history(g, b, "RepMem", "cached", rds(false), chunk, byHeight(cs1))
			}
			if want("RepMem", "getter") {
				c.history(g, b, "RepMem", "getter", rds(false), chunk, getter(s1))
			}
			if want("RepMem", "plain") {
				c.history(g, b, "RepMem", "plain", rds(true), chunk, func() (*c05Env, func()) {
					return &c05Env{acc: &eds.Rsmt2D{ExtendedDataSquare: b.eds}}, func() {}
				})
			}
		}

		// ---- reopened from the ODS and Q4 files
		s2, err := NewStore(&Parameters{RecentBlocksCacheSize: 0}, dirA)
		must(err)
		if want("RepOdsQ4", "store") {
			c.history(g, b, "RepOdsQ4", "store", rds(false), chunk, byHeight(s2))
		}
		if want("RepOdsQ4", "getter") {
			c.history(g, b, "RepOdsQ4", "getter", rds(false), chunk, getter(s2))
		}
		s3, err := NewStore(&Parameters{RecentBlocksCacheSize: 10}, dirA)
		must(err)
		cs3, err := s3.WithCache("c05", 1)
		must(err)
		if want("RepOdsQ4", "cached") {
			c.history(g, b, "RepOdsQ4", "cached", rds(false), chunk, byHeight(cs3))
		}
		if want("RepOdsQ4", "plain") {
			c.history(g, b, "RepOdsQ4", "plain", rds(true), chunk, func() (*c05Env, func()) {
				o, err := file.OpenODS(pathODS)
				if err != nil {
					return nil, nil
				}
				acc := file.ODSWithQ4(o, pathQ4)
				return &c05Env{acc: acc}, func() { acc.Close() }
			})
		}

		if !b.spec.Empty {
			// ---- Q4 pruned
			if b.num%2 == 0 {
				must(s3.RemoveQ4(ctx, height, b.hash))
			} else {
				must(os.Remove(pathQ4))
				must(s3.cache.Remove(height))
			}
			s4, err := NewStore(&Parameters{RecentBlocksCacheSize: 0}, dirA)
			must(err)
			if want("RepQ4Removed", "store") {
				c.history(g, b, "RepQ4Removed", "store", rds(false), chunk, byHeight(s4))
			}
			if want("RepQ4Removed", "cached") {
				c.history(g, b, "RepQ4Removed", "cached", rds(false), chunk, byHeight(cs3))
			}
			if want("RepQ4Removed", "getter") {
				c.history(g, b, "RepQ4Removed", "getter", rds(false), chunk, getter(s4))
			}
			if want("RepQ4Removed", "plain") {
				c.history(g, b, "RepQ4Removed", "plain", rds(true), chunk, func() (*c05Env, func()) {
					o, err := file.OpenODS(pathODS)
					if err != nil {
						return nil, nil
					}
					return &c05Env{acc: o}, func() { o.Close() }
				})
			}

			// ---- ODS-only put, reopened
			dirB := filepath.Join(base, fmt.Sprintf("b%d", b.num))
			must(os.MkdirAll(dirB, 0o755))
			sb, err := NewStore(&Parameters{RecentBlocksCacheSize: 10}, dirB)
			must(err)
			if err := sb.PutODS(ctx, b.roots, height, b.eds); err != nil {
				r.Violation("put-failed", fmt.Sprintf("PutODS k=%d pad=%d: %v", b.k, b.spec.Pad, err), map[string]any{"spec": b.spec})
				continue
			}
			sb2, err := NewStore(&Parameters{RecentBlocksCacheSize: 0}, dirB)
			must(err)
			if want("RepOds", "store") {
				c.history(g, b, "RepOds", "store", rds(false), chunk, byHeight(sb2))
			}
			if want("RepOds", "getter") {
				c.history(g, b, "RepOds", "getter", rds(false), chunk, getter(sb2))
			}

			// ---- recent cache of size one: this block from memory, the previous one evicted to its files
			if !isReplay {
				if err := shared.PutODSQ4(ctx, b.roots, height, b.eds); err != nil {
					r.Violation("put-failed", fmt.Sprintf("PutODSQ4(shared) k=%d pad=%d: %v", b.k, b.spec.Pad, err), map[string]any{"spec": b.spec})
					continue
				}
				sharedPhase = true
				few := b.reads(rng, false, 40, false)
				if b.wide {
					few = b.wideReads(rng, 8, false)
				}
				c.history(g, b, "RepMem", "store", few, chunk, byHeight(shared))
				if prev != nil {
					ph := uint64(100 + prev.num)
					prevReads := prev.reads(rng, false, 40, false)
					if prev.wide {
						prevReads = prev.wideReads(rng, 8, false)
					}
					c.history(groups[prev.cls], prev, "RepOdsQ4", "store", prevReads, chunk, func() (*c05Env, func()) {
						acc, err := shared.GetByHeight(ctx, ph)
						if err != nil {
							return nil, nil
						}
						return &c05Env{acc: acc}, func() { acc.Close() }
					})
				}
				prev = b
				sharedPhase = false
			}
		}
	}
	r.Set("blocks", len(blocks))
	r.Set("exhaustive", "all indices, namespaces and ranges (incl. out-of-bounds) for widths 1,2,4 with every padding amount"+map[bool]string{true: "", false: " (width 4: 96 sampled reads per representation and layer in the quick tier)"}[r.Thorough()])
	_ = errors.Is
}

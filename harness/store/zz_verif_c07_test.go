//go:build verif

package store

// C07 correspondence + oracle harness (see /verif/DESIGN.md, C07).
//
// The harness MATERIALISES crash states of the store's write / remove path on disk — every combination of a prefix of the
// real .ods file and a prefix of the real .q4 file (absent, empty, mid-header, header complete, mid-roots, share
// boundaries, mid-share, the real 64 KiB flush boundaries, all-but-last byte, complete) with the height link absent /
// present — and runs the real NewStore, HasByHeight, GetByHeight (reading everything back), PutODSQ4 / PutODS,
// RemoveODSQ4 on it.
//
// L2: every state with what the implementation did is a case for CN.Store.Crash.mismatches (the model's lookup,
//     put_final and removal on the same state).
// L3: on every state the write path can actually leave behind (a link implies a complete ODS file): lookup is absent or
//     the full correct block, re-put succeeds and leaves the block fully readable from a fresh process with a complete
//     linked file, removal leaves the height absent.
//
// TestVerifC07Trace performs one put between two marker files; lib/props/c07.py runs it under strace and turns the
// observed system calls into coq/theories/Gen/PutEffects.v (T-fs).

import (
	"bytes"
	"context"
	"encoding/json"
	"errors"
	"fmt"
	"io"
	"os"
	"path/filepath"
	"sort"
	"testing"

	libshare "github.com/celestiaorg/go-square/v4/share"
	"github.com/celestiaorg/rsmt2d"

	"github.com/celestiaorg/celestia-node/share"
	"github.com/celestiaorg/celestia-node/share/eds"
	"github.com/celestiaorg/celestia-node/share/shwap"
	zv "github.com/celestiaorg/celestia-node/zzverif"
)

const c07Header = `From Coq Require Import List NArith.
From CN Require Import Store.Crash.
Import ListNotations.
Open Scope N_scope.
`

type c07State struct {
	Spec   c05Spec `json:"spec"`
	Ods    int     `json:"ods"`  // bytes of the .ods file present, -1 = absent
	Q4     int     `json:"q4"`   // bytes of the .q4 file present, -1 = absent
	Link   bool    `json:"link"` // heights/<h>.ods present (hard link to the .ods file)
	ReputQ bool    `json:"reput_q4"`
}

type c07Obs struct {
	Has     bool   `json:"has"`
	Lookup  string `json:"lookup"`
	Q4Used  bool   `json:"q4_used"`
	ReputOK bool   `json:"reput_ok"`
	Lookup2 string `json:"lookup2"`
	Has2    bool   `json:"has2"`
	Ods2    int    `json:"ods2"`
	Q42     int    `json:"q42"`
	Lookup3 string `json:"lookup3"`
	Has3    bool   `json:"has3"`
	Detail  string `json:"detail,omitempty"`
}

func c07OptN(n int) string {
	if n < 0 {
		return "None"
	}
	return fmt.Sprintf("(Some %d)", n)
}

func c07FileSize(path string) int {
	st, err := os.Stat(path)
	if err != nil {
		return -1
	}
	return int(st.Size())
}

// c07Lookup opens the height on a freshly started store and reads everything back.
// Result: OAbsent | OFull | OWrong | OUnreadable, whether row k came from the Q4 file, and a description of the first difference.
func c07Lookup(ctx context.Context, dir string, b *c05Block, height uint64, sampleAll bool) (has bool, class string, q4used bool, detail string) {
	class = "OUnreadable"
	pan := zv.Recover(func() {
		s, err := NewStore(&Parameters{RecentBlocksCacheSize: 0}, dir)
		if err != nil {
			detail = "NewStore: " + err.Error()
			return
		}
		has, _ = s.HasByHeight(ctx, height)
		acc, err := s.GetByHeight(ctx, height)
		if errors.Is(err, ErrNotFound) {
			class = "OAbsent"
			return
		}
		if err != nil {
			detail = "GetByHeight: " + err.Error()
			return
		}
		defer acc.Close()
		class = "OWrong"
		k, size := b.k, 2*b.k
		if n, err := acc.Size(ctx); err != nil || n != size {
			detail = fmt.Sprintf("size %d (%v)", n, err)
			return
		}
		if h, err := acc.DataHash(ctx); err != nil || !bytes.Equal(h, b.hash) {
			detail = "data hash differs"
			return
		}
		if roots, err := acc.AxisRoots(ctx); err != nil || !roots.Equals(b.roots) {
			detail = "axis roots differ"
			return
		}
		for _, col := range []bool{false, true} {
			for i := 0; i < size; i++ {
				ax := rsmt2d.Row
				full := b.eds.Row(uint(i))
				if col {
					ax = rsmt2d.Col
					full = b.eds.Col(uint(i))
				}
				half, err := acc.AxisHalf(ctx, ax, i)
				if err != nil {
					detail = fmt.Sprintf("axis half %v %d: %v", ax, i, err)
					return
				}
				if !col && i == k {
					q4used = half.IsParity
				}
				want := full[:k]
				if half.IsParity {
					want = full[k:]
				}
				if !c05SharesEq(half.Shares, want) {
					detail = fmt.Sprintf("axis half %v %d differs from the block (parity=%v)", ax, i, half.IsParity)
					return
				}
			}
		}
		step := 1
		if !sampleAll {
			step = 3
		}
		for i := 0; i < size; i += step {
			for j := 0; j < size; j += step {
				smp, err := acc.Sample(ctx, shwap.SampleCoords{Row: i, Col: j})
				if err != nil {
					detail = fmt.Sprintf("sample (%d,%d): %v", i, j, err)
					return
				}
				if !bytes.Equal(smp.Share.ToBytes(), b.eds.GetCell(uint(i), uint(j))) {
					detail = fmt.Sprintf("sample (%d,%d) differs from the block", i, j)
					return
				}
				if err := smp.Verify(b.roots, i, j); err != nil {
					detail = fmt.Sprintf("sample (%d,%d) does not verify", i, j)
					return
				}
			}
		}
		shs, err := acc.Shares(ctx)
		if err != nil || !c05SharesEq(shs, b.ods) {
			detail = "Shares differs from the block"
			return
		}
		rdr, err := acc.Reader()
		if err != nil {
			detail = "Reader: " + err.Error()
			return
		}
		raw, err := io.ReadAll(rdr)
		if err != nil {
			detail = "Reader: " + err.Error()
			return
		}
		got, err := eds.ReadShares(bytes.NewReader(raw), libshare.ShareSize, k)
		if err != nil || !c05SharesEq(got, b.ods) {
			detail = "streamed ODS differs from the block"
			return
		}
		class = "OFull"
	})
	if pan != "" {
		class, detail = "OWrong", "panic: "+pan
	}
	return has, class, q4used, detail
}

// c07Offsets: the prefixes of a file of total bytes that are materialised.
func c07Offsets(total int, ods bool, k int, thorough bool, rng *zv.Rand) []int {
	set := map[int]bool{-1: true, 0: true, total: true, total - 1: true}
	add := func(x int) {
		if x >= 0 && x <= total {
			set[x] = true
		}
	}
	base := 0
	if ods {
		base = 65 + 4*k*share.AxisRootSize
		for _, x := range []int{1, 40, 64, 65, 66, 65 + share.AxisRootSize + 7, base - 1, base} {
			add(x)
		}
		// the header is written directly, the rest through a 64 KiB buffer: real flush boundaries
		for x := 65 + 64<<10; x < total; x += 64 << 10 {
			add(x)
		}
	} else {
		for x := 64 << 10; x < total; x += 64 << 10 {
			add(x)
		}
	}
	add(base + libshare.ShareSize)
	add(base + libshare.ShareSize + 100)
	add(base + (total-base)/2/libshare.ShareSize*libshare.ShareSize)
	add(total - libshare.ShareSize)
	add(total - libshare.ShareSize - 1)
	n := 2
	if thorough {
		n = 12
	}
	for i := 0; i < n; i++ {
		add(rng.Intn(total + 1))
	}
	var out []int
	for x := range set {
		out = append(out, x)
	}
	sort.Ints(out)
	return out
}

func TestVerifC07(t *testing.T) {
	r := zv.Start(t, "C07")
	defer r.Finish()
	ctx := context.Background()
	g := r.Group("crash", c07Header, "crash_case", "mismatches")
	rng := r.Rand().Fork(7)

	specs := []c05Spec{{Seed: rng.U64(), K: 2, Pad: 1}, {Seed: rng.U64(), K: 4, Pad: 0}, {Seed: rng.U64(), K: 4, Pad: 6}}
	if r.Thorough() {
		specs = append(specs, c05Spec{Seed: rng.U64(), K: 1, Pad: 0}, c05Spec{Seed: rng.U64(), K: 2, Pad: 0}, c05Spec{Seed: rng.U64(), K: 8, Pad: 13},
			c05Spec{Seed: rng.U64(), K: 16, Pad: 40}, c05Spec{Seed: rng.U64(), K: 32, Pad: 5})
	} else {
		specs = append(specs, c05Spec{Seed: rng.U64(), K: 16, Pad: 40}) // several real 64 KiB flushes
	}
	var replay struct {
		State *c07State `json:"state"`
	}
	isReplay := r.ReplayInput(&replay) && replay.State != nil
	if isReplay {
		specs = []c05Spec{replay.State.Spec}
	}
	base := t.TempDir()
	must := func(err error) {
		if err != nil {
			t.Fatal(err)
		}
	}
	const height = uint64(42)
	nState := 0
	for bi, sp := range specs {
		b, err := c05NewBlock(sp, bi)
		must(err)
		// the canonical files: what a completed put writes
		ref := filepath.Join(base, fmt.Sprintf("ref%d", bi))
		must(os.MkdirAll(ref, 0o755))
		rs, err := NewStore(&Parameters{RecentBlocksCacheSize: 0}, ref)
		must(err)
		must(rs.PutODSQ4(ctx, b.roots, height, b.eds))
		rawODS, err := os.ReadFile(rs.hashToPath(b.hash, odsFileExt))
		must(err)
		rawQ4, err := os.ReadFile(rs.hashToPath(b.hash, q4FileExt))
		must(err)
		to, tq := len(rawODS), len(rawQ4)

		var states []c07State
		if isReplay {
			states = []c07State{*replay.State}
		} else {
			odsOffs := c07Offsets(to, true, b.k, r.Thorough(), rng)
			q4Offs := c07Offsets(tq, false, b.k, r.Thorough(), rng)
			if b.k >= 16 && !r.Thorough() { // big files: the flush boundaries and the extremes
				keep := func(xs []int, total int) []int {
					var out []int
					for _, x := range xs {
						if x <= 65 || x >= total-1 || (x-65)%(64<<10) == 0 || x%(64<<10) == 0 {
							out = append(out, x)
						}
					}
					return out
				}
				odsOffs, q4Offs = keep(odsOffs, to), keep(q4Offs, tq)
			}
			for _, o := range odsOffs {
				for _, q := range q4Offs {
					for _, link := range []bool{false, true} {
						if link && o < 0 {
							continue // a hard link needs the file
						}
						if link && o != to && !(o == 65 || o == 0 || o == to-1 || o == 40) {
							continue // unreachable states are only kept for a few sizes (model correspondence on lookups)
						}
						for _, rq := range []bool{true, false} {
							states = append(states, c07State{Spec: sp, Ods: o, Q4: q, Link: link, ReputQ: rq})
						}
					}
				}
			}
		}
		for _, st := range states {
			nState++
			dir := filepath.Join(base, fmt.Sprintf("s%d", nState))
			must(os.MkdirAll(filepath.Join(dir, heightsPath), 0o755))
			pODS := filepath.Join(dir, blocksPath, b.hash.String()+odsFileExt)
			pQ4 := filepath.Join(dir, blocksPath, b.hash.String()+q4FileExt)
			pLink := filepath.Join(dir, heightsPath, fmt.Sprint(height)+odsFileExt)
			if st.Ods >= 0 {
				must(os.WriteFile(pODS, rawODS[:st.Ods], 0o600))
			}
			if st.Q4 >= 0 {
				must(os.WriteFile(pQ4, rawQ4[:st.Q4], 0o600))
			}
			if st.Link {
				must(os.Link(pODS, pLink))
			}
			reachable := !st.Link || st.Ods == to
			sampleAll := b.k <= 4
			var o c07Obs
			o.Has, o.Lookup, o.Q4Used, o.Detail = c07Lookup(ctx, dir, b, height, sampleAll)

			// re-put the same block on a restarted store
			s, err := NewStore(&Parameters{RecentBlocksCacheSize: 10}, dir)
			must(err)
			var perr error
			if pan := zv.Recover(func() {
				if st.ReputQ {
					perr = s.PutODSQ4(ctx, b.roots, height, b.eds)
				} else {
					perr = s.PutODS(ctx, b.roots, height, b.eds)
				}
			}); pan != "" {
				perr = errors.New("panic: " + pan)
			}
			o.ReputOK = perr == nil
			var d2 string
			o.Has2, o.Lookup2, _, d2 = c07Lookup(ctx, dir, b, height, sampleAll)
			o.Ods2, o.Q42 = c07FileSize(pODS), c07FileSize(pQ4)
			linked := c07FileSize(pLink)

			// remove it
			s2, err := NewStore(&Parameters{RecentBlocksCacheSize: 10}, dir)
			must(err)
			rerr := s2.RemoveODSQ4(ctx, height, b.hash)
			o.Has3, o.Lookup3, _, _ = c07Lookup(ctx, dir, b, height, false)

			r.Count("reput", map[bool]string{true: "PutODSQ4", false: "PutODS"}[st.ReputQ])
			r.Count("lookup", o.Lookup)
			r.Count("state", fmt.Sprintf("link=%v reachable=%v", st.Link, reachable))
			kind := func(n, total int) string {
				switch {
				case n < 0:
					return "absent"
				case n == total:
					return "complete"
				case n < 65:
					return "short"
				}
				return "partial"
			}
			r.Count("ods", kind(st.Ods, to))
			r.Count("q4", kind(st.Q4, tq))

			if reachable {
				rep := map[string]any{"state": st, "observed": o}
				where := fmt.Sprintf("k=%d pad=%d: crash state ods=%d/%d q4=%d/%d link=%v", b.k, sp.Pad, st.Ods, to, st.Q4, tq, st.Link)
				if o.Lookup != "OAbsent" && o.Lookup != "OFull" {
					r.Violation("crash-lookup:"+o.Lookup, where+": lookup after restart is neither absent nor the full correct block: "+o.Detail, rep)
				}
				mode := map[bool]string{true: "PutODSQ4", false: "PutODS"}[st.ReputQ]
				if !o.ReputOK {
					r.Violation("reput-failed:"+mode, where+": storing the block again fails: "+perr.Error(), rep)
				} else if o.Lookup2 != "OFull" || !o.Has2 {
					r.Violation("reput-unreadable:"+mode+":"+o.Lookup2, where+": after storing the block again ("+mode+") a restarted store reads: "+o.Lookup2+" "+d2, rep)
				} else if linked != to {
					r.Violation("partial-linked:"+mode, fmt.Sprintf("%s: after %s the height links a file of %d bytes, complete is %d", where, mode, linked, to), rep)
				}
				if rerr != nil || o.Lookup3 != "OAbsent" || o.Has3 {
					r.Violation("remove-leaves:"+o.Lookup3, fmt.Sprintf("%s: after RemoveODSQ4 (%v) the height is %s", where, rerr, o.Lookup3), rep)
				}
			}
			term := fmt.Sprintf("mkCase %d %d %s %s %s %s %s %s %s %s %s %s %s %s %s %s", to, tq, c07OptN(st.Ods), c07OptN(st.Q4), zv.Bool(st.Link), zv.Bool(st.ReputQ),
				zv.Bool(o.Has), o.Lookup, zv.Bool(o.Q4Used), zv.Bool(o.ReputOK), o.Lookup2, zv.Bool(o.Has2), c07OptN(o.Ods2), c07OptN(o.Q42), o.Lookup3, zv.Bool(o.Has3))
			key := ""
			if st.Ods >= 0 || st.Q4 >= 0 {
				key = "x"
			}
			g.Case(term, map[string]any{"state": st, "observed": o, "reachable": reachable}, key)
			os.RemoveAll(dir)
		}
	}

	// ---- the empty block: linked by symlink only; the empty-block files are rewritten by every NewStore
	if !isReplay {
		emptyB, err := c05NewBlock(c05Spec{Empty: true}, 0)
		must(err)
		nEmpty := 0
		for _, link := range []bool{false, true} {
			for _, eo := range []int{-1, 0, 30, 65, 200} {
				for _, reput := range []bool{true, false} {
					dir := filepath.Join(base, fmt.Sprintf("e%d", nEmpty))
					nEmpty++
					must(os.MkdirAll(filepath.Join(dir, heightsPath), 0o755))
					st0, err := NewStore(&Parameters{RecentBlocksCacheSize: 0}, dir)
					must(err)
					if link {
						must(st0.PutODSQ4(ctx, emptyB.roots, height, emptyB.eds))
					}
					pE := st0.hashToPath(share.EmptyEDSDataHash(), odsFileExt)
					raw, err := os.ReadFile(pE)
					must(err)
					// a crash during an earlier restart left the empty-block file partial
					if eo < 0 {
						must(os.Remove(pE))
					} else if eo < len(raw) {
						must(os.Truncate(pE, int64(eo)))
					}
					where := fmt.Sprintf("empty block: link=%v empty-file=%d bytes", link, eo)
					has, lk, _, det := c07Lookup(ctx, dir, emptyB, height, true)
					want := map[bool]string{true: "OFull", false: "OAbsent"}[link]
					if lk != want || has != link {
						r.Violation("empty-lookup:"+lk, where+": after restart the height reads "+lk+" "+det, map[string]any{"link": link, "empty_file": eo})
					}
					s2, err := NewStore(&Parameters{RecentBlocksCacheSize: 10}, dir)
					must(err)
					if reput {
						err = s2.PutODSQ4(ctx, emptyB.roots, height, emptyB.eds)
					} else {
						err = s2.PutODS(ctx, emptyB.roots, height, emptyB.eds)
					}
					_, lk2, _, det2 := c07Lookup(ctx, dir, emptyB, height, true)
					if err != nil || lk2 != "OFull" {
						r.Violation("empty-reput:"+lk2, fmt.Sprintf("%s: storing the empty block again: %v, then %s %s", where, err, lk2, det2), map[string]any{"link": link, "empty_file": eo})
					}
					s3, err := NewStore(&Parameters{RecentBlocksCacheSize: 10}, dir)
					must(err)
					rerr := s3.RemoveODSQ4(ctx, height, emptyB.hash)
					_, lk3, _, _ := c07Lookup(ctx, dir, emptyB, height, true)
					if rerr != nil || lk3 != "OAbsent" {
						r.Violation("empty-remove:"+lk3, fmt.Sprintf("%s: after removal (%v) the height reads %s", where, rerr, lk3), map[string]any{"link": link, "empty_file": eo})
					}
					r.Count("empty", fmt.Sprintf("link=%v", link))
				}
			}
		}
		r.Set("empty_block_states", nEmpty)
	}
	r.Set("crash_states", nState)
}

// TestVerifC07Trace performs one put of a fixed block between two marker files. It is run under strace by
// lib/props/c07.py; it does nothing unless VERIF_C07_TRACE_DIR is set.
func TestVerifC07Trace(t *testing.T) {
	dir := os.Getenv("VERIF_C07_TRACE_DIR")
	if dir == "" {
		t.Skip("driven by lib/props/c07.py")
	}
	ctx := context.Background()
	b, err := c05NewBlock(c05Spec{Seed: 7, K: 16, Pad: 9}, 0)
	if err != nil {
		t.Fatal(err)
	}
	info := map[string]any{}
	for _, mode := range []string{"q4", "ods"} {
		d := filepath.Join(dir, mode)
		if err := os.MkdirAll(d, 0o755); err != nil {
			t.Fatal(err)
		}
		s, err := NewStore(&Parameters{RecentBlocksCacheSize: 0}, d)
		if err != nil {
			t.Fatal(err)
		}
		mark := func(name string) {
			f, err := os.Create(filepath.Join(d, name))
			if err == nil {
				f.Close()
			}
		}
		mark("C07-BEGIN")
		if mode == "q4" {
			err = s.PutODSQ4(ctx, b.roots, 42, b.eds)
		} else {
			err = s.PutODS(ctx, b.roots, 42, b.eds)
		}
		mark("C07-END")
		if err != nil {
			t.Fatal(err)
		}
		info[mode] = map[string]any{
			"ods": s.hashToPath(b.hash, odsFileExt), "q4": s.hashToPath(b.hash, q4FileExt), "link": s.heightToPath(42, odsFileExt),
			"to": c07FileSize(s.hashToPath(b.hash, odsFileExt)), "tq": c07FileSize(s.hashToPath(b.hash, q4FileExt)),
		}
	}
	raw, _ := json.Marshal(info)
	if err := os.WriteFile(filepath.Join(dir, "info.json"), raw, 0o644); err != nil {
		t.Fatal(err)
	}
}

//go:build verif && race

package store

import "testing"

const c08RaceEnabled = true

// TestVerifC08Race runs the rounds of TestVerifC08 in a binary built with -race (spec: race=True).  It exists only in
// that build: a check that is driven without the race detector finds no test and reports the harness as broken.
func TestVerifC08Race(t *testing.T) { c08Main(t, true) }

//go:build verif

package store

// C07, L3 on the observed trace: lib/props/c07.py traces one real PutODSQ4 and one real PutODS with strace and hands the
// normalised effect sequence (create / write at offset / truncate / close / link / unlink, in the order the kernel saw
// them) to this test. Every PREFIX of that sequence is a crash state the real write path can leave behind. Each is
// materialised on disk - the bytes of a write are the bytes the complete file holds at that offset, a truncate beyond
// the end extends with zeros like the kernel does - and given to the real store: restart, lookup by height, store the
// block again (both ways), lookup, remove.

import (
	"context"
	"encoding/json"
	"errors"
	"fmt"
	"os"
	"path/filepath"
	"testing"

	zv "github.com/celestiaorg/celestia-node/zzverif"
)

type c07Effect struct {
	Op   string `json:"op"` // create | write | truncate | close | link | unlink | symlink | other
	P    string `json:"p,omitempty"`
	Q    string `json:"q,omitempty"`
	Off  int    `json:"off,omitempty"`
	N    int    `json:"n,omitempty"`
	What string `json:"what,omitempty"`
}

func TestVerifC07Effects(t *testing.T) {
	epath := os.Getenv("VERIF_C07_EFFECTS")
	if epath == "" {
		t.Skip("driven by lib/props/c07.py")
	}
	r := zv.Start(t, "C07")
	defer r.Finish()
	raw, err := os.ReadFile(epath)
	if err != nil {
		t.Fatal(err)
	}
	var all map[string][]c07Effect
	if err := json.Unmarshal(raw, &all); err != nil {
		t.Fatal(err)
	}
	ctx := context.Background()
	must := func(err error) {
		if err != nil {
			t.Fatal(err)
		}
	}
	// the block TestVerifC07Trace stored
	b, err := c05NewBlock(c05Spec{Seed: 7, K: 16, Pad: 9}, 0)
	must(err)
	const height = uint64(42)
	base := t.TempDir()
	ref := filepath.Join(base, "ref")
	must(os.MkdirAll(ref, 0o755))
	rs, err := NewStore(&Parameters{RecentBlocksCacheSize: 0}, ref)
	must(err)
	must(rs.PutODSQ4(ctx, b.roots, height, b.eds))
	rawODS, err := os.ReadFile(rs.hashToPath(b.hash, odsFileExt))
	must(err)
	rawQ4, err := os.ReadFile(rs.hashToPath(b.hash, q4FileExt))
	must(err)
	canon := map[string][]byte{"POds": rawODS, "PQ4": rawQ4}
	to := len(rawODS)

	nStates := 0
	for _, mode := range []string{"q4", "ods"} {
		effs := all[mode]
		for cut := 0; cut <= len(effs); cut++ {
			for _, reputQ := range []bool{true, false} {
				nStates++
				dir := filepath.Join(base, fmt.Sprintf("%s-%d-%v", mode, cut, reputQ))
				must(os.MkdirAll(filepath.Join(dir, heightsPath), 0o755))
				must(os.MkdirAll(filepath.Join(dir, blocksPath), 0o755))
				paths := map[string]string{
					"POds":  filepath.Join(dir, blocksPath, b.hash.String()+odsFileExt),
					"PQ4":   filepath.Join(dir, blocksPath, b.hash.String()+q4FileExt),
					"PLink": filepath.Join(dir, heightsPath, fmt.Sprint(height)+odsFileExt),
				}
				exact := true // false when the prefix contains an effect this replayer cannot reproduce
				for _, e := range effs[:cut] {
					switch e.Op {
					case "create":
						must(os.WriteFile(paths[e.P], nil, 0o600))
					case "write":
						f, err := os.OpenFile(paths[e.P], os.O_WRONLY, 0o600)
						must(err)
						src := canon[e.P]
						buf := make([]byte, e.N)
						if e.Off < len(src) {
							copy(buf, src[e.Off:min(len(src), e.Off+e.N)])
						}
						_, err = f.WriteAt(buf, int64(e.Off))
						must(err)
						must(f.Close())
					case "truncate":
						must(os.Truncate(paths[e.P], int64(e.N)))
					case "close":
					case "link":
						must(os.Link(paths[e.P], paths[e.Q]))
					case "unlink":
						must(os.Remove(paths[e.P]))
					default:
						exact = false
					}
				}
				if !exact {
					r.Count("prefix", "not-reproducible")
					os.RemoveAll(dir)
					continue
				}
				where := fmt.Sprintf("crash after %d of the %d file-system effects the real %s was observed to perform (.ods %d/%d bytes, .q4 %d/%d bytes, link %v)",
					cut, len(effs), map[string]string{"q4": "PutODSQ4", "ods": "PutODS"}[mode], c07FileSize(paths["POds"]), to, c07FileSize(paths["PQ4"]), len(rawQ4), c07FileSize(paths["PLink"]) >= 0)
				rep := map[string]any{"mode": mode, "prefix": cut, "effects": effs[:cut], "reput_q4": reputQ}
				_, lk, _, det := c07Lookup(ctx, dir, b, height, false)
				r.Count("prefix_lookup", lk)
				if lk != "OAbsent" && lk != "OFull" {
					r.Violation("trace-crash-lookup:"+lk, where+": lookup after restart is neither absent nor the full correct block: "+det, rep)
				}
				s, err := NewStore(&Parameters{RecentBlocksCacheSize: 10}, dir)
				must(err)
				var perr error
				if pan := zv.Recover(func() {
					if reputQ {
						perr = s.PutODSQ4(ctx, b.roots, height, b.eds)
					} else {
						perr = s.PutODS(ctx, b.roots, height, b.eds)
					}
				}); pan != "" {
					perr = errors.New("panic: " + pan)
				}
				rmode := map[bool]string{true: "PutODSQ4", false: "PutODS"}[reputQ]
				if perr != nil {
					r.Violation("trace-reput-failed:"+rmode, where+": storing the block again fails: "+perr.Error(), rep)
				} else {
					has2, lk2, _, det2 := c07Lookup(ctx, dir, b, height, false)
					if lk2 != "OFull" || !has2 {
						r.Violation("trace-reput-unreadable:"+rmode+":"+lk2, where+": after storing the block again ("+rmode+") a restarted store reads: "+lk2+" "+det2, rep)
					}
				}
				s2, err := NewStore(&Parameters{RecentBlocksCacheSize: 10}, dir)
				must(err)
				rerr := s2.RemoveODSQ4(ctx, height, b.hash)
				has3, lk3, _, _ := c07Lookup(ctx, dir, b, height, false)
				if rerr != nil || lk3 != "OAbsent" || has3 {
					r.Violation("trace-remove-leaves:"+lk3, fmt.Sprintf("%s: after RemoveODSQ4 (%v) the height is %s", where, rerr, lk3), rep)
				}
				os.RemoveAll(dir)
			}
		}
	}
	r.Set("prefix_states", nStates)
}

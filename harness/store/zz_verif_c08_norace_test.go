//go:build verif && !race

package store

const c08RaceEnabled = false

//go:build verif

package store

// C08 harness H-store-conc (see /verif/DESIGN.md, C08; models: coq/theories/Store/StoreSpec.v, CacheRef.v, ConcLocks.v).
//
// Real Store + CachedStore on a temp dir, three heights that collide on the store's height lock stripe (h, h+1024,
// h+2048) and on the cache's stripe, each with one fixed reference square.  Goroutines run seed-derived scripts of
// PutODSQ4 / PutODS / GetByHeight / HasByHeight / HasQ4ByHash / RemoveODSQ4 / RemoveQ4 / CachedStore.GetByHeight; readers
// keep their accessor across whatever the others do and compare EVERY byte they read with the reference square.
//
// L2: small recorded histories (invocation/return order, results, content before and after) are emitted as Coq cases
//     for CN.Store.StoreSpec.mismatches (the model's linearizability checker must accept them).
// L3: wrong bytes / an error through a held accessor, an operation that does not return (watchdog), file descriptors
//     still open after everything was closed and removed, a history or final content that no sequential order
//     explains.
//
// Which interleavings the Go scheduler produces is explored by stress, not controlled: a replay re-runs the round
// (same seed, same scripts) many times.

import (
	"bytes"
	"context"
	"errors"
	"fmt"
	"io"
	"os"
	"os/exec"
	"path/filepath"
	"runtime"
	"runtime/debug"
	"sort"
	"strings"
	"sync"
	"sync/atomic"
	"testing"
	"time"

	"github.com/celestiaorg/celestia-app/v9/pkg/wrapper"
	libshare "github.com/celestiaorg/go-square/v4/share"
	"github.com/celestiaorg/rsmt2d"

	"github.com/celestiaorg/celestia-node/share"
	"github.com/celestiaorg/celestia-node/share/eds"
	"github.com/celestiaorg/celestia-node/share/shwap"
	zv "github.com/celestiaorg/celestia-node/zzverif"
)

// The case terms avoid numerals, pair notations and scope delimiters (every number is a constant defined once in the
// header, every tuple is built by a helper function): elaborating the literal notations costs Coq far more time than
// deciding linearizability of the history.
var c08HistHeader = func() string {
	var sb strings.Builder
	sb.WriteString(`From Coq Require Import List NArith.
From CN Require Import Store.StoreSpec.
Import ListNotations.
Open Scope N_scope.
Definition o (p : op) (h : N) (r : res) (i j : nat) : hop := mkOp p h r i j.
Definition hp (h : N) (s : hst) : N * hst := (h, s).
Definition hc (hs : list N) (i : store) (l : list hop) (f : store) : hist_case := (hs, i, l, f).
`)
	for i := 0; i < c08NatConsts; i++ {
		fmt.Fprintf(&sb, "Definition n%d := %d%%nat.\n", i, i)
	}
	for i := uint64(0); i < 3; i++ {
		fmt.Fprintf(&sb, "Definition h%d := %d%%N.\n", c08Base+i*c08Stripes, c08Base+i*c08Stripes)
	}
	return sb.String()
}()

const (
	c08NatConsts = 64
	c08Base      = 5 // the three heights are c08Base + i*c08Stripes
)

func c08HN(h uint64) string {
	if h >= c08Base && (h-c08Base)%c08Stripes == 0 && (h-c08Base)/c08Stripes < 3 {
		return fmt.Sprintf("h%d", h)
	}
	return zv.N(h)
}

func c08Nat(i int) string {
	if i >= 0 && i < c08NatConsts {
		return fmt.Sprintf("n%d", i)
	}
	return fmt.Sprintf("%d%%nat", i)
}

// ---------------------------------------------------------------- reference blocks

type c08Block struct {
	h     uint64
	k     int
	flat  [][]byte // the whole extended square, row major
	ods   [][]byte
	roots *share.AxisRoots
	hash  share.DataHash
	nss   []libshare.Namespace
}

func c08MakeBlock(seed uint64, h uint64, k int) (*c08Block, error) {
	rng := zv.NewRand(seed)
	nns := 1 + rng.Intn(3)
	var nss []libshare.Namespace
	seen := map[string]bool{}
	for len(nss) < nns {
		id := make([]byte, 10)
		id[8], id[9] = byte(1+rng.Intn(250)), byte(rng.Intn(256))
		ns := libshare.MustNewV0Namespace(id)
		if !seen[string(ns.Bytes())] {
			seen[string(ns.Bytes())] = true
			nss = append(nss, ns)
		}
	}
	sort.Slice(nss, func(i, j int) bool { return nss[i].IsLessThan(nss[j]) })
	total := k * k
	runs := make([]int, nns)
	for i := range runs {
		runs[i] = 1
	}
	for i := nns; i < total; i++ {
		runs[rng.Intn(nns)]++
	}
	var ods [][]byte
	for i, ns := range nss {
		for j := 0; j < runs[i] && len(ods) < total; j++ {
			raw := make([]byte, libshare.ShareSize)
			copy(raw, ns.Bytes())
			copy(raw[libshare.NamespaceSize:], rng.Bytes(libshare.ShareSize-libshare.NamespaceSize)) // every byte counts
			ods = append(ods, raw)
		}
	}
	e, err := rsmt2d.ComputeExtendedDataSquare(ods, share.DefaultRSMT2DCodec(), wrapper.NewConstructor(uint64(k)))
	if err != nil {
		return nil, err
	}
	roots, err := share.NewAxisRoots(e)
	if err != nil {
		return nil, err
	}
	return &c08Block{h: h, k: k, flat: e.Flattened(), ods: ods, roots: roots, hash: roots.Hash(), nss: nss}, nil
}

// square gives every put its own square object, with its roots computed as the callers of Put do (they derive the
// roots from the square they pass): the in-memory accessor that put publishes is then read-only.
func (b *c08Block) square() (*rsmt2d.ExtendedDataSquare, error) {
	cp := make([][]byte, len(b.flat))
	for i, x := range b.flat {
		cp[i] = append([]byte(nil), x...)
	}
	e, err := rsmt2d.ImportExtendedDataSquare(cp, share.DefaultRSMT2DCodec(), wrapper.NewConstructor(uint64(b.k)))
	if err != nil {
		return nil, err
	}
	if _, err := share.NewAxisRoots(e); err != nil {
		return nil, err
	}
	return e, nil
}

func (b *c08Block) cell(r, c int) []byte { return b.flat[r*2*b.k+c] }

// ---------------------------------------------------------------- reading through an accessor, every byte checked

// c08Read performs one read of the given kind and compares all returned bytes with the reference.
func c08Read(ctx context.Context, acc eds.AccessorStreamer, b *c08Block, rng *zv.Rand, kind int) (what string, bad string) {
	w := 2 * b.k
	switch kind {
	case 0, 1, 2: // sample, biased to the quadrants served from the Q4 file
		r, c := rng.Intn(w), rng.Intn(w)
		if kind > 0 {
			r = b.k + rng.Intn(b.k)
		}
		what = fmt.Sprintf("sample(%d,%d)", r, c)
		s, err := acc.Sample(ctx, shwap.SampleCoords{Row: r, Col: c})
		if err != nil {
			return what, "error: " + err.Error()
		}
		if !bytes.Equal(s.Share.ToBytes(), b.cell(r, c)) {
			return what, "wrong share bytes"
		}
		if err := s.Verify(b.roots, r, c); err != nil {
			return what, "sample does not verify: " + err.Error()
		}
	case 3, 4: // axis half
		axis := rsmt2d.Row
		if rng.Bool() {
			axis = rsmt2d.Col
		}
		i := rng.Intn(w)
		if kind == 4 {
			i = b.k + rng.Intn(b.k)
		}
		what = fmt.Sprintf("axishalf(%d,%d)", axis, i)
		half, err := acc.AxisHalf(ctx, axis, i)
		if err != nil {
			return what, "error: " + err.Error()
		}
		if len(half.Shares) != b.k {
			return what, fmt.Sprintf("%d shares", len(half.Shares))
		}
		off := 0
		if half.IsParity {
			off = b.k
		}
		for j, sh := range half.Shares {
			r, c := i, off+j
			if axis == rsmt2d.Col {
				r, c = off+j, i
			}
			if !bytes.Equal(sh.ToBytes(), b.cell(r, c)) {
				return what, fmt.Sprintf("wrong bytes in share %d of the half (parity=%v)", j, half.IsParity)
			}
		}
	case 5: // all data shares
		what = "shares"
		shs, err := acc.Shares(ctx)
		if err != nil {
			return what, "error: " + err.Error()
		}
		if len(shs) != len(b.ods) {
			return what, fmt.Sprintf("%d shares", len(shs))
		}
		for j, sh := range shs {
			if !bytes.Equal(sh.ToBytes(), b.ods[j]) {
				return what, fmt.Sprintf("wrong bytes in share %d", j)
			}
		}
	case 6: // streamed ODS
		what = "reader"
		rd, err := acc.Reader()
		if err != nil {
			return what, "error: " + err.Error()
		}
		raw, err := io.ReadAll(rd)
		if err != nil {
			return what, "error: " + err.Error()
		}
		if !bytes.Equal(raw, bytes.Join(b.ods, nil)) {
			return what, "wrong streamed bytes"
		}
	case 7: // row namespace data
		i := rng.Intn(b.k)
		ns := zv.Pick(rng, b.nss)
		what = fmt.Sprintf("rownd(%d)", i)
		first, last := b.ods[i*b.k][:libshare.NamespaceSize], b.ods[i*b.k+b.k-1][:libshare.NamespaceSize]
		if bytes.Compare(ns.Bytes(), first) < 0 || bytes.Compare(ns.Bytes(), last) > 0 {
			return what, "" // outside the row's range: the accessor refuses, nothing to compare
		}
		rnd, err := acc.RowNamespaceData(ctx, ns, i)
		if err != nil {
			return what, "error: " + err.Error()
		}
		var want [][]byte
		for j := 0; j < b.k; j++ {
			if bytes.Equal(b.ods[i*b.k+j][:libshare.NamespaceSize], ns.Bytes()) {
				want = append(want, b.ods[i*b.k+j])
			}
		}
		if len(rnd.Shares) != len(want) {
			return what, fmt.Sprintf("%d shares, want %d", len(rnd.Shares), len(want))
		}
		for j, sh := range rnd.Shares {
			if !bytes.Equal(sh.ToBytes(), want[j]) {
				return what, "wrong bytes"
			}
		}
		if err := rnd.Verify(b.roots, ns, i); err != nil {
			return what, "does not verify: " + err.Error()
		}
	default: // roots, hash, size
		what = "meta"
		roots, err := acc.AxisRoots(ctx)
		if err != nil {
			return what, "error: " + err.Error()
		}
		// compared field by field: AxisRoots.Equals / Hash memoize the hash inside the value, and the proofs cache hands one
		// *AxisRoots to every holder of a cached accessor (no caller in the repository hashes it; see the spec's trusted base)
		if !c08SameRoots(roots, b.roots) {
			return what, "wrong roots"
		}
		dh, err := acc.DataHash(ctx)
		if err != nil || !bytes.Equal(dh, b.hash) {
			return what, "wrong data hash"
		}
		if sz, err := acc.Size(ctx); err != nil || sz != w {
			return what, "wrong size"
		}
	}
	return what, ""
}

func c08SameRoots(a, b *share.AxisRoots) bool {
	if a == nil || len(a.RowRoots) != len(b.RowRoots) || len(a.ColumnRoots) != len(b.ColumnRoots) {
		return false
	}
	for i := range a.RowRoots {
		if !bytes.Equal(a.RowRoots[i], b.RowRoots[i]) {
			return false
		}
	}
	for i := range a.ColumnRoots {
		if !bytes.Equal(a.ColumnRoots[i], b.ColumnRoots[i]) {
			return false
		}
	}
	return true
}

// ---------------------------------------------------------------- environment, operations, history

const c08Stripes = 1024 // newStripLock(1024) in NewStore; checked against the real store in TestVerifC08

type c08Op struct {
	G    int    `json:"g"`
	Kind string `json:"kind"` // putq4 put get cget has hasq4 rm rmq4
	H    int    `json:"h"`    // index of the height
	Res  string `json:"res"`  // ok found notfound
	Inv  int64  `json:"inv"`
	Ret  int64  `json:"ret"`
}

type c08Cfg struct {
	Recent  int         `json:"recent"` // RecentBlocksCacheSize
	Cached  int         `json:"cached"` // size of the CachedStore cache
	Ks      []int       `json:"ks"`     // ODS widths of the three heights
	Seed    uint64      `json:"seed"`
	Shape   string      `json:"shape"`         // stress | lazyq4 | cachedremove | micro
	Pre     []c08Step   `json:"pre,omitempty"` // sequential prologue run by goroutine 0
	Scripts [][]c08Step `json:"scripts,omitempty"`
}

type c08Step struct {
	Kind  string `json:"kind"`
	H     int    `json:"h"`
	Reads int    `json:"reads,omitempty"`
	Hold  bool   `json:"hold,omitempty"` // reader: obtain the accessor, then wait for the gate before reading
	Gate  bool   `json:"gate,omitempty"` // writer: wait until every holding reader has its accessor, open the gate, go
	// reader (with Hold): leave the gate together with the other readers and make the FIRST read an axis half of the
	// lower/right half of the square (index >= size/2: served from the lazily opened parity file)
	Parity bool `json:"parity,omitempty"`
}

type c08Flight struct {
	kind  string
	h     int
	start time.Time
}

type c08Env struct {
	t      *testing.T
	zr     *zv.Run
	dir    string
	s      *Store
	cs     *CachedStore
	blocks []*c08Block
	cfg    c08Cfg
	clock  atomic.Int64

	mu   sync.Mutex
	hist []c08Op

	flights []atomic.Pointer[c08Flight]
	hung    atomic.Bool

	pfx     string        // prefix of the histogram names ("race_" in the race-detector run)
	nHold   int           // readers with Hold in the round's scripts
	arrived atomic.Int32  // readers that have passed the gate (second stage of the barrier of the Parity readers)
	holdCh  chan struct{} // one token per reader that has its accessor and waits for the gate
	gateCh  chan struct{} // closed by the writer marked Gate once every holding reader has its accessor
}

// c08Patience bounds the waits of the harness on its OWN events (gate, eviction goroutines); it is not an oracle.
const c08Patience = 90 * time.Second

var c08BlockCache = map[string]*c08Block{}
var c08Pfx string // "race_" in the race-detector run: the driver merges the histograms of all harness runs by name

func c08Blocks(ks []int, base uint64) ([]*c08Block, error) {
	var out []*c08Block
	for i, k := range ks {
		key := fmt.Sprintf("%d/%d/%d", i, k, base)
		b := c08BlockCache[key]
		if b == nil {
			var err error
			b, err = c08MakeBlock(0xC08<<20|uint64(i)<<8|uint64(k), base+uint64(i)*c08Stripes, k)
			if err != nil {
				return nil, err
			}
			c08BlockCache[key] = b
		}
		out = append(out, b)
	}
	return out, nil
}

func c08NewEnv(t *testing.T, zr *zv.Run, cfg c08Cfg, goroutines int) (*c08Env, error) {
	dir, err := os.MkdirTemp("", "verif-c08-")
	if err != nil {
		return nil, err
	}
	s, err := NewStore(&Parameters{RecentBlocksCacheSize: cfg.Recent}, dir)
	if err != nil {
		return nil, err
	}
	e := &c08Env{t: t, zr: zr, dir: dir, s: s, cfg: cfg}
	if cfg.Cached > 0 {
		if e.cs, err = s.WithCache("verif", cfg.Cached); err != nil {
			return nil, err
		}
	}
	if e.blocks, err = c08Blocks(cfg.Ks, c08Base); err != nil {
		return nil, err
	}
	e.flights = make([]atomic.Pointer[c08Flight], goroutines)
	return e, nil
}

func (e *c08Env) close() { _ = os.RemoveAll(e.dir) }

func (e *c08Env) violation(sig, desc string) {
	e.zr.Violation(sig, desc, e.cfg)
}

// track marks goroutine g as being inside a call into the store (for the watchdog); the returned function ends it.
// Only calls into the code under test are tracked, never the harness's own waits.
func (e *c08Env) track(g int, kind string, h int) func() {
	e.flights[g].Store(&c08Flight{kind: kind, h: h, start: time.Now()})
	return func() { e.flights[g].Store(nil) }
}

// do runs one operation of goroutine g, records it, and (for reads) checks every byte served by the accessor.
func (e *c08Env) do(g int, st c08Step, rng *zv.Rand) {
	ctx := context.Background()
	b := e.blocks[st.H]
	op := c08Op{G: g, Kind: st.Kind, H: st.H, Res: "ok"}
	var acc eds.AccessorStreamer
	var err error
	var sq *rsmt2d.ExtendedDataSquare
	if st.Kind == "putq4" || st.Kind == "put" {
		if sq, err = b.square(); err != nil {
			e.violation("harness-square", fmt.Sprintf("reference square of height #%d: %v", st.H, err))
			return
		}
	}
	if st.Gate {
		need := e.nHold
		timeout := time.After(c08Patience)
	wait:
		for ; need > 0; need-- {
			select {
			case <-e.holdCh:
			case <-timeout:
				e.zr.Count("harness", "gate opened before every reader had its accessor")
				break wait
			}
		}
		close(e.gateCh)
	}
	if st.Kind == "gate" { // nothing but the gate
		return
	}
	op.Inv = e.clock.Add(1)
	end := e.track(g, st.Kind, st.H)
	switch st.Kind {
	case "putq4":
		err = e.s.PutODSQ4(ctx, b.roots, b.h, sq)
	case "put":
		err = e.s.PutODS(ctx, b.roots, b.h, sq)
	case "get":
		acc, err = e.s.GetByHeight(ctx, b.h)
	case "cget":
		acc, err = e.cs.GetByHeight(ctx, b.h)
	case "has":
		var ok bool
		ok, err = e.s.HasByHeight(ctx, b.h)
		op.Res = map[bool]string{true: "found", false: "notfound"}[ok]
	case "hasq4":
		var ok bool
		ok, err = e.s.HasQ4ByHash(ctx, b.hash)
		op.Res = map[bool]string{true: "found", false: "notfound"}[ok]
	case "rm":
		err = e.s.RemoveODSQ4(ctx, b.h, b.hash)
	case "rmq4":
		err = e.s.RemoveQ4(ctx, b.h, b.hash)
	}
	end()
	op.Ret = e.clock.Add(1)
	if st.Kind == "get" || st.Kind == "cget" {
		switch {
		case err == nil:
			op.Res = "found"
		case errors.Is(err, ErrNotFound):
			op.Res, err = "notfound", nil
		}
	}
	if err != nil {
		e.zr.Count("op_errors", st.Kind)
		e.violation("op-error-"+st.Kind, fmt.Sprintf("%s of height #%d failed: %v", st.Kind, st.H, err))
		op.Res = "error"
	}
	e.mu.Lock()
	e.hist = append(e.hist, op)
	e.mu.Unlock()
	e.zr.Count(e.pfx+"ops", st.Kind+":"+op.Res)
	if st.Hold {
		e.holdCh <- struct{}{} // buffered: never blocks
		select {
		case <-e.gateCh:
		case <-time.After(c08Patience):
			e.zr.Count("harness", "reader gave up waiting for the gate")
		}
		if st.Parity {
			// second stage: the gate wakes the readers one after the other; they leave together once all are running
			// (bounded: with fewer processors than readers they go as they come)
			e.arrived.Add(1)
			for t0, spins := time.Now(), 0; int(e.arrived.Load()) < e.nHold; spins++ {
				if spins%64 == 63 {
					if time.Since(t0) > 2*time.Millisecond {
						break
					}
					runtime.Gosched()
				}
			}
		} else {
			for j := rng.Intn(300); j > 0; j-- {
				runtime.Gosched()
			}
		}
	}
	if acc == nil {
		return
	}
	// the reader keeps the accessor while the others remove / re-put / evict, and checks every byte
	for i := 0; i < st.Reads; i++ {
		kind := rng.Intn(9)
		if st.Parity && i == 0 {
			kind = 4 // axis half with index >= size/2
		}
		end := e.track(g, "read-after-"+st.Kind, st.H)
		what, bad := c08Read(ctx, acc, b, rng, kind)
		end()
		e.zr.Count(e.pfx+"reads", strings.SplitN(what, "(", 2)[0])
		if bad != "" {
			sig := "torn-read"
			if strings.HasPrefix(bad, "error") {
				sig = "read-error"
			}
			e.violation(sig, fmt.Sprintf("%s through an accessor of height #%d (k=%d) obtained by %s: %s", what, st.H, b.k, st.Kind, bad))
		}
		for j := rng.Intn(3); j > 0; j-- {
			runtime.Gosched()
		}
	}
	end = e.track(g, "close-after-"+st.Kind, st.H)
	err = acc.Close()
	end()
	if err != nil {
		e.violation("close-error", fmt.Sprintf("closing an accessor of height #%d: %v", st.H, err))
	}
}

// run executes the scripts concurrently under a watchdog.  It returns false when an operation hung.
func (e *c08Env) run(scripts [][]c08Step, seed uint64, start func(g int)) bool {
	var wg sync.WaitGroup
	for g := range scripts {
		wg.Add(1)
		go func(g int) {
			defer wg.Done()
			rng := zv.NewRand(seed ^ uint64(g+1)*0x9e3779b97f4a7c15)
			if start != nil {
				start(g)
			}
			for _, st := range scripts[g] {
				e.do(g, st, rng)
			}
		}(g)
	}
	done := make(chan struct{})
	go func() { wg.Wait(); close(done) }()
	// the cache force-closes after one minute: a wait-for cycle shows as an operation stuck for most of that time
	const limit = 40 * time.Second
	tick := time.NewTicker(200 * time.Millisecond)
	defer tick.Stop()
	for {
		select {
		case <-done:
			return true
		case <-tick.C:
			for g := range e.flights {
				if f := e.flights[g].Load(); f != nil && time.Since(f.start) > limit {
					buf := make([]byte, 1<<16)
					buf = buf[:runtime.Stack(buf, true)]
					e.hung.Store(true)
					e.violation("op-hangs-"+f.kind, fmt.Sprintf("%s of height #%d has not returned after %v; goroutines:\n%s", f.kind, f.h, limit, c08Trim(string(buf))))
					return false
				}
			}
		}
	}
}

func c08Trim(s string) string {
	var keep []string
	for _, blk := range strings.Split(s, "\n\n") {
		if strings.Contains(blk, "celestia-node/store") {
			lines := strings.Split(blk, "\n")
			if len(lines) > 14 {
				lines = lines[:14]
			}
			keep = append(keep, strings.Join(lines, "\n"))
		}
	}
	if len(keep) > 8 {
		keep = keep[:8]
	}
	return strings.Join(keep, "\n\n")
}

// ---------------------------------------------------------------- content, sequential specification, linearizability

// content observed at quiescence: 0 absent, 1 ODS only, 2 ODS+Q4; inconsistent observations are reported
func (e *c08Env) content(report bool) []int {
	ctx := context.Background()
	out := make([]int, len(e.blocks))
	for i, b := range e.blocks {
		has, err1 := e.s.HasByHeight(ctx, b.h)
		q4, err2 := e.s.HasQ4ByHash(ctx, b.hash)
		_, errLink := os.Lstat(e.s.heightToPath(b.h, odsFileExt))
		_, errOds := os.Stat(e.s.hashToPath(b.hash, odsFileExt))
		link, ods := errLink == nil, errOds == nil
		switch {
		case has && q4:
			out[i] = 2
		case has:
			out[i] = 1
		}
		if report {
			switch {
			case err1 != nil || err2 != nil:
				e.violation("quiescent-error", fmt.Sprintf("Has/HasQ4 of height #%d: %v %v", i, err1, err2))
			case has != link:
				e.violation("quiescent-has-without-link", fmt.Sprintf("height #%d at rest: HasByHeight=%v but the height link exists=%v (cache and disk disagree)", i, has, link))
			case link != ods:
				e.violation("quiescent-link-without-file", fmt.Sprintf("height #%d at rest: link=%v ods file=%v", i, link, ods))
			case !has && q4:
				e.violation("quiescent-orphan-q4", fmt.Sprintf("height #%d at rest: absent but its Q4 file exists", i))
			}
		}
	}
	return out
}

func c08Apply(s int, kind string) (int, string) {
	switch kind {
	case "put":
		if s == 0 {
			return 1, "ok"
		}
		return s, "ok"
	case "putq4":
		return 2, "ok"
	case "get", "cget", "has":
		if s == 0 {
			return s, "notfound"
		}
		return s, "found"
	case "hasq4":
		if s == 2 {
			return s, "found"
		}
		return s, "notfound"
	case "rm":
		return 0, "ok"
	case "rmq4":
		if s == 2 {
			return 1, "ok"
		}
		return s, "ok"
	}
	return s, "?"
}

// c08Linearizable checks one height's operations: forward search over (content, set of pending operations already
// linearized with their results).  Returns "" or a description of the first event nothing explains.
// c08Loose marks the reads whose result is not constrained: put publishes the block in the cache before its files
// exist and the cache may drop it again before the height is linked, so a read overlapping a put of the same height may
// see the block come and go.
func c08Loose(ops []c08Op) []bool {
	out := make([]bool, len(ops))
	for i, o := range ops {
		switch o.Kind {
		case "get", "cget", "has", "hasq4":
			for _, p := range ops {
				if (p.Kind == "put" || p.Kind == "putq4") && p.Inv < o.Ret && o.Inv < p.Ret {
					out[i] = true
				}
			}
		}
	}
	return out
}

func c08Linearizable(init int, ops []c08Op, final int) string {
	loose := c08Loose(ops)
	type evt struct {
		at  int64
		ret bool
		op  int
	}
	var evs []evt
	for i, o := range ops {
		evs = append(evs, evt{o.Inv, false, i}, evt{o.Ret, true, i})
	}
	sort.Slice(evs, func(i, j int) bool { return evs[i].at < evs[j].at })
	type cfg struct {
		state int
		done  string // per pending op: "" not linearized, else the result; encoded "idx=res;" sorted
	}
	encode := func(m map[int]string) string {
		keys := make([]int, 0, len(m))
		for k := range m {
			keys = append(keys, k)
		}
		sort.Ints(keys)
		var sb strings.Builder
		for _, k := range keys {
			fmt.Fprintf(&sb, "%d=%s;", k, m[k])
		}
		return sb.String()
	}
	decode := func(s string) map[int]string {
		m := map[int]string{}
		for _, p := range strings.Split(s, ";") {
			if p == "" {
				continue
			}
			var k int
			var v string
			fmt.Sscanf(strings.Replace(p, "=", " ", 1), "%d %s", &k, &v)
			m[k] = v
		}
		return m
	}
	cur := map[cfg]bool{{init, ""}: true}
	pending := map[int]bool{}
	closure := func(set map[cfg]bool) map[cfg]bool {
		work := make([]cfg, 0, len(set))
		for c := range set {
			work = append(work, c)
		}
		for len(work) > 0 {
			c := work[len(work)-1]
			work = work[:len(work)-1]
			m := decode(c.done)
			for p := range pending {
				if _, ok := m[p]; ok {
					continue
				}
				ns, r := c08Apply(c.state, ops[p].Kind)
				m2 := decode(c.done)
				m2[p] = r
				n := cfg{ns, encode(m2)}
				if !set[n] {
					set[n] = true
					work = append(work, n)
				}
			}
		}
		return set
	}
	for _, ev := range evs {
		if !ev.ret {
			pending[ev.op] = true
			continue
		}
		cur = closure(cur)
		next := map[cfg]bool{}
		for c := range cur {
			m := decode(c.done)
			if r, ok := m[ev.op]; ok && (r == ops[ev.op].Res || ops[ev.op].Res == "error" || loose[ev.op]) {
				delete(m, ev.op)
				next[cfg{c.state, encode(m)}] = true
			}
		}
		delete(pending, ev.op)
		if len(next) == 0 {
			o := ops[ev.op]
			return fmt.Sprintf("no sequential order explains %s of goroutine %d returning %q (event %d)", o.Kind, o.G, o.Res, o.Ret)
		}
		cur = next
	}
	for c := range cur {
		if c.state == final {
			return ""
		}
	}
	var sts []int
	for c := range cur {
		sts = append(sts, c.state)
	}
	sort.Ints(sts)
	return fmt.Sprintf("content at rest is %d but every sequential order of the operations ends in one of %v", final, sts)
}

var c08StateName = []string{"Absent", "Ods", "OdsQ4"}
var c08OpName = map[string]string{"put": "PutODS", "putq4": "PutODSQ4", "get": "Get", "cget": "Get", "has": "Has", "hasq4": "HasQ4", "rm": "RemoveAll", "rmq4": "RemoveQ4"}
var c08ResName = map[string]string{"ok": "ROk", "found": "RFound", "notfound": "RNotFound"}

// check: the recorded history against the sequential specification (per height: operations on different heights
// commute in the specification), and optionally as a Coq case.
func (e *c08Env) check(init, final []int, g *zv.Group, emit bool) {
	e.mu.Lock()
	hist := append([]c08Op(nil), e.hist...)
	e.hist = e.hist[:0]
	e.mu.Unlock()
	sort.Slice(hist, func(i, j int) bool { return hist[i].Inv < hist[j].Inv })
	bad := false
	for hi := range e.blocks {
		var ops []c08Op
		for _, o := range hist {
			if o.H == hi {
				ops = append(ops, o)
			}
		}
		if msg := c08Linearizable(init[hi], ops, final[hi]); msg != "" {
			bad = true
			sig := "non-linearizable-history"
			if strings.HasPrefix(msg, "content at rest") {
				sig = "non-linearizable-quiescent-state"
			}
			e.violation(sig, fmt.Sprintf("height #%d (initial content %s): %s; history: %s", hi, c08StateName[init[hi]], msg, c08HistString(ops)))
		}
	}
	if !emit || g == nil || len(hist) == 0 || len(hist) > 14 {
		return
	}
	for _, o := range hist {
		if c08ResName[o.Res] == "" {
			return
		}
	}
	// renumber the event stamps densely
	var stamps []int64
	for _, o := range hist {
		stamps = append(stamps, o.Inv, o.Ret)
	}
	sort.Slice(stamps, func(i, j int) bool { return stamps[i] < stamps[j] })
	pos := map[int64]int{}
	for i, s := range stamps {
		pos[s] = i
	}
	var hs, in, fin, ops []string
	for i, b := range e.blocks {
		hs = append(hs, c08HN(b.h))
		in = append(in, fmt.Sprintf("hp %s %s", c08HN(b.h), c08StateName[init[i]]))
		fin = append(fin, fmt.Sprintf("hp %s %s", c08HN(b.h), c08StateName[final[i]]))
	}
	overlap := false
	looseAll := make([]bool, len(hist))
	for hi := range e.blocks {
		var idx []int
		var sub []c08Op
		for i, o := range hist {
			if o.H == hi {
				idx, sub = append(idx, i), append(sub, o)
			}
		}
		for j, l := range c08Loose(sub) {
			looseAll[idx[j]] = l
		}
	}
	for i, o := range hist {
		res := c08ResName[o.Res]
		if looseAll[i] {
			res = "RAny"
			e.zr.Count("hist_reads", "unconstrained (overlaps a put)")
		} else if o.Res != "ok" {
			e.zr.Count("hist_reads", "constrained")
		}
		ops = append(ops, fmt.Sprintf("o %s %s %s %s %s", c08OpName[o.Kind], c08HN(e.blocks[o.H].h), res, c08Nat(pos[o.Inv]), c08Nat(pos[o.Ret])))
		for _, p := range hist[:i] {
			if p.H == o.H && p.Ret > o.Inv && p.G != o.G {
				overlap = true
			}
		}
	}
	term := fmt.Sprintf("hc [%s] [%s] [%s] [%s]", strings.Join(hs, "; "), strings.Join(in, "; "), strings.Join(ops, "; "), strings.Join(fin, "; "))
	key := ""
	if overlap && !bad {
		key = term
	}
	g.Case(term, map[string]any{"init": init, "final": final, "history": hist, "cfg": e.cfg}, key)
}

func c08HistString(ops []c08Op) string {
	var xs []string
	for _, o := range ops {
		xs = append(xs, fmt.Sprintf("g%d:%s[%d,%d]=%s", o.G, o.Kind, o.Inv, o.Ret, o.Res))
	}
	if len(xs) > 40 {
		xs = append(xs[:40], "...")
	}
	return strings.Join(xs, " ")
}

// ---------------------------------------------------------------- file descriptors

func c08FDs() (int, []string) {
	ents, err := os.ReadDir("/proc/self/fd")
	if err != nil {
		return -1, nil
	}
	var names []string
	for _, x := range ents {
		if l, err := os.Readlink(filepath.Join("/proc/self/fd", x.Name())); err == nil {
			names = append(names, l)
		}
	}
	return len(ents), names
}

// c08Busy counts the goroutines other than the calling one that still have a frame of the store packages on their
// stack (or were created there and have not started).  After the scripts have ended these can only be what the store
// itself has left behind: the goroutines the accessor cache spawns to close evicted entries (evictFn: `go ac.close()`).
func c08Busy() int {
	buf := make([]byte, 1<<20)
	for {
		n := runtime.Stack(buf, true)
		if n < len(buf) {
			buf = buf[:n]
			break
		}
		buf = make([]byte, 2*len(buf))
	}
	cnt := 0
	for i, blk := range strings.Split(string(buf), "\n\n") {
		if i > 0 && strings.Contains(blk, "celestia-node/store") { // block 0 is the caller
			cnt++
		}
	}
	return cnt
}

// drain: remove every block (which empties the caches), wait until the store is at rest — every operation has
// returned, every accessor handed out is closed and no eviction goroutine of the caches is left — and compare the open
// files of the store directory with none.  Whatever is open then has been dropped by the store without Close();
// a garbage collection tells whether at least the os.File finalizer still gets it.
func (e *c08Env) drain() {
	ctx := context.Background()
	for i, b := range e.blocks {
		end := e.track(0, "rm", i)
		err := e.s.RemoveODSQ4(ctx, b.h, b.hash)
		end()
		if err != nil {
			e.violation("op-error-rm", fmt.Sprintf("final removal: %v", err))
		}
	}
	count := func() []string {
		_, names := c08FDs()
		var mine []string
		for _, n := range names {
			if strings.HasPrefix(n, e.dir) {
				mine = append(mine, strings.TrimPrefix(n, e.dir))
			}
		}
		sort.Strings(mine)
		return mine
	}
	// every reference is released, so an eviction goroutine has nothing to wait for: it ends as soon as it is scheduled
	for t0, i := time.Now(), 0; c08Busy() > 0; i++ {
		if time.Since(t0) > c08Patience {
			buf := make([]byte, 1<<16)
			buf = buf[:runtime.Stack(buf, true)]
			e.violation("evict-hangs", "all references are released and every block is removed, but a goroutine of the store (cache eviction) does not end:\n"+c08Trim(string(buf)))
			return
		}
		if i < 50 {
			runtime.Gosched()
		} else {
			time.Sleep(time.Millisecond)
		}
	}
	open := count()
	if len(open) == 0 {
		e.zr.Count(e.pfx+"fd_check", "clean")
		return
	}
	var after []string
	for i := 0; i < 10; i++ { // finalizers run in their own goroutine after a collection
		runtime.GC()
		time.Sleep(20 * time.Millisecond)
		if after = count(); len(after) == 0 {
			break
		}
	}
	sig := "fd-leak-until-gc"
	if len(after) > 0 {
		sig = "fd-leak"
	}
	e.zr.Count(e.pfx+"fd_check", sig)
	e.violation(sig, fmt.Sprintf("the store is at rest (every operation returned, every accessor closed, every block removed, no eviction goroutine left); still open: %v; after garbage collection: %v", open, after))
}

// ---------------------------------------------------------------- race detector

// The harness is built with -race; GORACE=log_path=<prefix> (set by the check's spec) sends the reports to files which
// are looked at after every round, so that a report becomes a violation with the round that produced it.
func c08RaceLogPrefix() string {
	for _, f := range strings.Fields(os.Getenv("GORACE")) {
		if v, ok := strings.CutPrefix(f, "log_path="); ok {
			return v
		}
	}
	return ""
}

// The detector of a process writes to <log_path>.<pid>.
func c08RaceFile(pid int) string { return fmt.Sprintf("%s.%d", c08RaceLogPrefix(), pid) }

// c08RaceReports returns what the detector of THIS process has written since the last call.
func c08RaceReports() string {
	if c08RaceLogPrefix() == "" {
		return ""
	}
	b, err := os.ReadFile(c08RaceFile(os.Getpid()))
	if err != nil || len(b) <= c08RaceRead {
		return ""
	}
	out := string(b[c08RaceRead:])
	c08RaceRead = len(b)
	return out
}

var c08RaceRead int

// c08RaceSig names the class of a report: the first frame of the code under test (not of this harness), without the
// method name, e.g. data-race-share.eds.closeOnce.
func c08RaceSig(report string) string {
	for _, ln := range strings.Split(report, "\n") {
		i := strings.Index(ln, "celestia-node/")
		if i < 0 || strings.Contains(ln, ".go:") {
			continue
		}
		name := strings.TrimSuffix(strings.TrimSpace(ln[i+len("celestia-node/"):]), "()")
		if strings.HasPrefix(name, "store.c08") || strings.HasPrefix(name, "store.(*c08") || strings.HasPrefix(name, "store.TestVerif") || strings.HasPrefix(name, "zzverif.") {
			continue
		}
		if j := strings.Index(name, ")."); j >= 0 { // pkg.(*T).method -> pkg.T
			name = name[:j]
		}
		return "data-race-" + strings.Map(func(c rune) rune {
			switch {
			case c >= 'a' && c <= 'z', c >= 'A' && c <= 'Z', c >= '0' && c <= '9', c == '.', c == '-', c == '_':
				return c
			case c == '/':
				return '.'
			}
			return -1
		}, name)
	}
	return "data-race"
}

func c08ClearRaceReports() {
	if c08RaceLogPrefix() != "" {
		_ = os.Remove(c08RaceFile(os.Getpid()))
	}
	c08RaceRead = 0
}

// ---------------------------------------------------------------- script generation

var c08Kinds = []struct {
	kind string
	w    int
}{{"putq4", 14}, {"put", 10}, {"get", 22}, {"cget", 18}, {"has", 8}, {"hasq4", 5}, {"rm", 13}, {"rmq4", 10}}

func c08Script(rng *zv.Rand, n, heights int, cached bool, maxReads int) []c08Step {
	total := 0
	for _, k := range c08Kinds {
		total += k.w
	}
	var out []c08Step
	for len(out) < n {
		x := rng.Intn(total)
		kind := ""
		for _, k := range c08Kinds {
			if x < k.w {
				kind = k.kind
				break
			}
			x -= k.w
		}
		if kind == "cget" && !cached {
			kind = "get"
		}
		st := c08Step{Kind: kind, H: rng.Intn(heights)}
		if kind == "get" || kind == "cget" {
			st.Reads = 1 + rng.Intn(maxReads)
		}
		out = append(out, st)
	}
	return out
}

// ---------------------------------------------------------------- rounds

// round: scripts run concurrently on a fresh store (or, for the micro rounds, on a store kept from the previous micro
// round with the same cache sizes: the content at rest before the round is then the initial content of its history),
// then history / content / descriptor checks.
func c08Round(t *testing.T, zr *zv.Run, cfg c08Cfg, g *zv.Group, reuse map[string]*c08Env) bool {
	t0 := time.Now()
	var e *c08Env
	key := fmt.Sprintf("%d/%d", cfg.Recent, cfg.Cached)
	if reuse != nil {
		e = reuse[key]
	}
	if e == nil {
		var err error
		if e, err = c08NewEnv(t, zr, cfg, 32); err != nil {
			t.Fatal(err)
		}
		if reuse != nil {
			reuse[key] = e
		}
	}
	e.cfg = cfg
	e.pfx = c08Pfx
	e.holdCh, e.gateCh = make(chan struct{}, 64), make(chan struct{})
	e.arrived.Store(0)
	e.nHold = 0
	for _, sc := range cfg.Scripts {
		for _, x := range sc {
			if x.Hold {
				e.nHold++
			}
		}
	}
	var t1, t2, t3 time.Time
	if os.Getenv("VERIF_C08_DEBUG") != "" {
		defer func() {
			t.Logf("round %s: setup %v run %v check %v drain %v", cfg.Shape, t1.Sub(t0), t2.Sub(t1), t3.Sub(t2), time.Since(t3))
		}()
	}
	if e.s.stripLock.byHeight(e.blocks[0].h) != e.s.stripLock.byHeight(e.blocks[len(e.blocks)-1].h) {
		zr.Violation("harness-stripes", "the heights no longer share a lock stripe: stripe count changed", cfg)
	}
	if cfg.Shape == "reput" || cfg.Shape == "parityrace" {
		// sequential and tiny: with the collector off no finalizer can hide a dropped descriptor, the oracle is deterministic
		defer debug.SetGCPercent(debug.SetGCPercent(-1))
	}
	init := e.content(false)
	t1 = time.Now()
	// sequential prologue (part of the history), under the watchdog like everything else
	if len(cfg.Pre) > 0 && !e.run([][]c08Step{cfg.Pre}, cfg.Seed^0x5bd1e995, nil) {
		return false
	}
	if !e.run(cfg.Scripts, cfg.Seed, nil) {
		return false
	}
	t2 = time.Now()
	final := e.content(true)
	e.check(init, final, g, cfg.Shape == "micro")
	t3 = time.Now()
	if reuse == nil {
		e.drain()
		e.close()
	}
	zr.Count(c08Pfx+"rounds", cfg.Shape)
	zr.Count(c08Pfx+"cache_sizes", fmt.Sprintf("recent=%d cached=%d", cfg.Recent, cfg.Cached))
	if rep := c08RaceReports(); strings.Contains(rep, "DATA RACE") {
		seen := map[string]bool{}
		for _, one := range strings.Split(rep, "==================") {
			if !strings.Contains(one, "DATA RACE") {
				continue
			}
			sig := c08RaceSig(one)
			if seen[sig] {
				continue
			}
			seen[sig] = true
			if len(one) > 5000 {
				one = one[:5000]
			}
			e.violation(sig, "the race detector reported during this round:"+one)
		}
	}
	return true
}

// c08Plans derives every round of the run from the seed.  The shapes are interleaved so that a run that is cut short
// by its time budget has done its share of each.
func c08Plans(r *zv.Run, race bool) []c08Cfg {
	// the instrumented binary of the quick tier gets small squares: the detector judges happens-before, not timing, and
	// hashing a 64x64 square under instrumentation costs seconds per round
	big, mid := 32, 16
	if race && !r.Thorough() {
		big, mid = 8, 8
	}
	root := r.Rand()
	var shapes [][]c08Cfg

	// (0) sequential: a block that is already stored is put again (all four combinations of PutODS / PutODSQ4), one
	//     goroutine, no concurrency: whatever the descriptor check finds here has a deterministic replay
	var reput []c08Cfg
	for i, n := 0, r.N(4, 48); i < n; i++ {
		kinds := []string{"put", "putq4"}
		reput = append(reput, c08Cfg{Recent: (i / 4) % 3, Cached: 1, Ks: []int{2, 2, 2}, Seed: root.U64(), Shape: "reput",
			Pre: []c08Step{{Kind: kinds[i%2], H: 0}}, Scripts: [][]c08Step{{{Kind: kinds[(i/2)%2], H: 0}, {Kind: "get", H: 0, Reads: 2}}}})
	}

	// (0b) directed: the lazy once-only open of the parity file.  A block stored in full, N readers obtain the SAME
	//      file-backed accessor through the cached store (recent cache off, so that no in-memory square is served), are
	//      released together and make their first read in the parity half; then reads of any kind, close, removal, and
	//      the descriptor count with the collector off.  An accessor that opens the parity file more than once keeps
	//      only the last handle: the others stay open (sig fd-leak-until-gc) and the race detector sees the overwrite.
	var parity []c08Cfg
	nParity := r.N(32, 400)
	if race && !r.Thorough() {
		nParity = 12 // the instrumented binary needs ~10x the time per round, and its windows are that much wider
	}
	for i, n := 0, nParity; i < n; i++ {
		// three heights = three independent accessors per round, all kept by the cached store at once
		cfg := c08Cfg{Recent: 0, Cached: 3, Ks: []int{2 << (i % 2), 2, 2}, Seed: root.U64(), Shape: "parityrace",
			Pre:     []c08Step{{Kind: "putq4", H: 0}, {Kind: "putq4", H: 1}, {Kind: "putq4", H: 2}},
			Scripts: [][]c08Step{{{Kind: "gate", Gate: true}}}}
		for h := 0; h < 3; h++ {
			for j, readers := 0, 6+(i+h)%3; j < readers; j++ {
				cfg.Scripts = append(cfg.Scripts, []c08Step{{Kind: "cget", H: h, Reads: 2, Hold: true, Parity: true}})
			}
		}
		parity = append(parity, cfg)
	}

	// (1) micro rounds: 3 goroutines x 2-3 operations over 2 heights; the recorded histories go to Coq
	var micro []c08Cfg
	for i, n := 0, r.N(160, 3000); i < n; i++ {
		seed := root.U64()
		rng := zv.NewRand(seed)
		cfg := c08Cfg{Recent: i % 3, Cached: 1 + (i/3)%2, Ks: []int{2, 2, 2}, Seed: seed, Shape: "micro"}
		for gi := 0; gi < 3; gi++ {
			cfg.Scripts = append(cfg.Scripts, c08Script(rng, 2+rng.Intn(2), 2, true, 2))
		}
		if rng.Chance(50) {
			cfg.Pre = c08Script(rng, 1+rng.Intn(2), 2, true, 1)
		}
		micro = append(micro, cfg)
	}
	shapes = append(shapes, micro)

	// (2) directed: readers that hold an accessor while the parity file of their block is (re)written
	//      a: the block is stored ODS-only, readers hold accessors (store: opened files; cached store: cache entries),
	//         then PutODSQ4 adds the Q4 file;  b: the block is stored in full, readers hold accessors that have not
	//         touched Q4 yet, then RemoveODSQ4 + PutODSQ4 re-create the files under the same paths
	var lazy []c08Cfg
	for i, n := 0, r.N(16, 1200); i < n; i++ {
		cfg := c08Cfg{Recent: i % 2, Cached: 1, Ks: []int{big, 2, 2}, Seed: root.U64(), Shape: "lazyq4"}
		if i%4 < 2 {
			cfg.Pre = []c08Step{{Kind: "put", H: 0}, {Kind: "put", H: 1}} // the second put evicts the in-memory square of the first
			cfg.Scripts = [][]c08Step{{{Kind: "putq4", H: 0, Gate: true}}}
		} else {
			cfg.Recent = 0
			cfg.Pre = []c08Step{{Kind: "putq4", H: 0}, {Kind: "put", H: 1}}
			cfg.Scripts = [][]c08Step{{{Kind: "rm", H: 0, Gate: true}, {Kind: "putq4", H: 0}}}
		}
		for j := 0; j < 4; j++ {
			kind := "get"
			if j%2 == 1 && i%4 < 2 {
				kind = "cget"
			}
			cfg.Scripts = append(cfg.Scripts, []c08Step{{Kind: kind, H: 0, Reads: 6, Hold: true}})
		}
		// and two readers that come while the writer is at work (the cached store opens files without the store's lock)
		cfg.Scripts = append(cfg.Scripts, []c08Step{{Kind: "cget", H: 0, Reads: 4}}, []c08Step{{Kind: "get", H: 0, Reads: 4}})
		lazy = append(lazy, cfg)
	}
	shapes = append(shapes, lazy)

	// (3) directed: CachedStore.GetByHeight against RemoveODSQ4 of the same height
	var cr []c08Cfg
	for i, n := 0, r.N(60, 6000); i < n; i++ {
		cfg := c08Cfg{Recent: i % 3, Cached: 1 + i%2, Ks: []int{2, 2, 2}, Seed: root.U64(), Shape: "cachedremove"}
		cfg.Scripts = [][]c08Step{
			{{Kind: "rm", H: 0}},
			{{Kind: "cget", H: 0, Reads: 1}},
			{{Kind: "cget", H: 0, Reads: 1}, {Kind: "cget", H: 1, Reads: 1}},
		}
		cfg.Pre = []c08Step{{Kind: "putq4", H: 0}, {Kind: "put", H: 1}}
		if i%2 == 1 {
			cfg.Pre = append(cfg.Pre, c08Step{Kind: "cget", H: 2, Reads: 1})
		}
		cr = append(cr, cfg)
	}
	shapes = append(shapes, cr)

	// (4) stress: many goroutines, all operations, three heights on one stripe, cache sizes 0..2
	var stress []c08Cfg
	for i, n := 0, r.N(24, 4000); i < n; i++ {
		seed := root.U64()
		rng := zv.NewRand(seed)
		ks := []int{4, 2, 8}
		if i%4 == 3 {
			ks = []int{mid, 2, 4}
		}
		cfg := c08Cfg{Recent: i % 3, Cached: 1 + (i/3)%2, Ks: ks, Seed: seed, Shape: "stress"}
		for gi, goroutines := 0, 6+rng.Intn(5); gi < goroutines; gi++ {
			cfg.Scripts = append(cfg.Scripts, c08Script(rng, 10+rng.Intn(10), 3, true, 5))
		}
		stress = append(stress, cfg)
	}
	shapes = append(shapes, stress)

	type slot struct {
		at  float64
		cfg c08Cfg
	}
	var all []slot
	for _, c := range reput { // first: the first violation of a signature is the one the driver writes as the replay
		all = append(all, slot{0, c})
	}
	for _, c := range parity { // early and in full: cheap, and not to be cut by the time budget
		all = append(all, slot{0, c})
	}
	for _, sh := range shapes {
		for i, c := range sh {
			all = append(all, slot{(float64(i) + 0.5) / float64(len(sh)), c})
		}
	}
	sort.SliceStable(all, func(i, j int) bool { return all[i].at < all[j].at })
	out := make([]c08Cfg, len(all))
	for i, x := range all {
		out[i] = x.cfg
	}
	return out
}

func TestVerifC08(t *testing.T) { c08Main(t, false) }

// c08Main is the body of TestVerifC08 (plain build: the recorded histories go to Coq) and of TestVerifC08Race (the same
// rounds in a binary built with -race, for the detector's verdict; see zz_verif_c08_race_test.go).
func c08Main(t *testing.T, race bool) {
	t0 := time.Now()
	r := zv.Start(t, "C08")
	defer r.Finish()
	var groups []*zv.Group
	if race {
		c08Pfx = "race_"
		c08ClearRaceReports()
		defer c08ClearRaceReports() // what they said has become violations
		r.Set("race_detector", c08RaceEnabled)
		defer c08RaceSelfTest(r)()
	} else {
		// several groups = several case files, which the driver evaluates in parallel
		for i := 0; i < r.N(2, 8); i++ {
			groups = append(groups, r.Group(fmt.Sprintf("hist%d", i), c08HistHeader, "hist_case", "CN.Store.StoreSpec.mismatches"))
		}
		r.Set("lock_stripes", c08Stripes)
	}

	var rep c08Cfg
	if r.ReplayInput(&rep) && len(rep.Scripts) > 0 {
		// the interleaving cannot be replayed; the round (same scripts, same sizes) is repeated
		for i := 0; i < 300; i++ {
			if !c08Round(t, r, rep, nil, nil) {
				break
			}
		}
		return
	}

	// the plan of the quick tier takes about 8 s on an idle machine (several times that with the race detector); the
	// deadline only keeps a loaded machine or the instrumented binary within the tier's budget: the rounds are
	// interleaved by shape, so a run that is cut short has done its share of each
	tStart := time.Now()
	budget := r.N(14, 540)
	if race {
		budget = r.N(10, 540)
	}
	deadline := time.Now().Add(time.Duration(budget) * time.Second)
	reuse := map[string]*c08Env{}
	plans := c08Plans(r, race)
	done, micro := 0, 0
	for _, cfg := range plans {
		if time.Now().After(deadline) && cfg.Shape != "reput" && cfg.Shape != "parityrace" { // those come first and are cheap: never cut
			break
		}
		var ru map[string]*c08Env
		var g *zv.Group
		if cfg.Shape == "micro" {
			ru = reuse
			if len(groups) > 0 {
				g = groups[micro%len(groups)]
			}
			micro++
		}
		if !c08Round(t, r, cfg, g, ru) {
			return // an operation hangs: goroutines of this round are still stuck in the store
		}
		done++
	}
	tRounds := time.Now()
	for _, k := range zv.SortedKeys(reuse) {
		e := reuse[k]
		e.cfg.Shape = "micro (descriptors counted after ALL micro rounds on the store with these cache sizes; this is the last of them)"
		e.drain()
		e.close()
	}
	r.Set(c08Pfx+"seconds", map[string]float64{"setup": tStart.Sub(t0).Seconds(), "rounds": tRounds.Sub(tStart).Seconds(), "final_drain": time.Since(tRounds).Seconds()})
	r.Set(c08Pfx+"rounds_planned", len(plans))
	r.Set(c08Pfx+"rounds_run", done)
}

// c08RaceSelfTest makes sure the race detector's verdict reaches this harness: a child process (this test binary, test
// TestVerifC08RaceProbe) commits one data race on a variable of its own, and its report must show up in the log file
// named after GORACE=log_path.  (In a child, because the testing package fails a test during which the detector
// reported anything.)  The child runs beside the rounds; the returned function waits for it and judges.
func c08RaceSelfTest(r *zv.Run) (finish func()) {
	if !c08RaceEnabled || c08RaceLogPrefix() == "" {
		r.Violation("harness-race-detector-off", "the race harness runs without the race detector or without GORACE=log_path", nil)
		return func() {}
	}
	var out bytes.Buffer
	cmd := exec.Command(os.Args[0], "-test.run", "^TestVerifC08RaceProbe$", "-test.count", "1")
	cmd.Env = append(os.Environ(), "VERIF_C08_RACE_PROBE=1")
	cmd.Stdout, cmd.Stderr = &out, &out
	if err := cmd.Start(); err != nil {
		r.Violation("harness-race-detector-silent", "cannot start the probe: "+err.Error(), nil)
		return func() {}
	}
	return func() {
		_ = cmd.Wait() // the probe fails by design
		file := c08RaceFile(cmd.Process.Pid)
		rep, _ := os.ReadFile(file)
		_ = os.Remove(file)
		ok := strings.Contains(string(rep), "DATA RACE") && strings.Contains(string(rep), "c08RaceProbe")
		r.Set("race_detector_selftest", ok)
		if !ok {
			tail := out.String()
			if len(tail) > 600 {
				tail = tail[len(tail)-600:]
			}
			r.Violation("harness-race-detector-silent", "a deliberate data race (child process) was not reported in "+file+"; output of the probe: "+tail, nil)
		}
	}
}

func c08RaceProbe() int {
	x := 0
	var wg sync.WaitGroup
	for i := 0; i < 2; i++ {
		wg.Add(1)
		go func(i int) { defer wg.Done(); x += i + 1 }(i)
	}
	wg.Wait()
	return x
}

// TestVerifC08RaceProbe is inert unless started by c08RaceSelfTest.
func TestVerifC08RaceProbe(t *testing.T) {
	if os.Getenv("VERIF_C08_RACE_PROBE") == "" {
		t.Skip("only as a child of TestVerifC08Race")
	}
	t.Log(c08RaceProbe())
}

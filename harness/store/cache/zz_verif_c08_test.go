//go:build verif

package cache

// C08 (b) correspondence harness for the accessor cache (see /verif/DESIGN.md, C08; model: coq/theories/Store/CacheRef.v).
//
// A scripted schedule of cache operations is run against the REAL AccessorCache with counting mock accessors.  The
// operations are cut at the points where the implementation can block (Remove / the eviction goroutine waiting for
// the readers of an entry): a Remove that has to wait runs in its own goroutine and the script goes on with other
// goroutine slots until the last reference is released.  Every operation is written as the sequence of the model's
// atomic steps it performs, followed by a snapshot of the real cache (LRU order, and per entry refs / isClosed /
// number of Close() calls on the mock); Coq replays the steps on the model and compares (CN.Store.CacheRef.mismatches).
//
// L3 (implementation oracle): Close() of an accessor at most once and never while a reference is out, a holder never
// sees a closed accessor, nothing blocks once the references are gone, and after everything is released every entry
// that left the LRU has been closed exactly once.

import (
	"context"
	"errors"
	"fmt"
	"strings"
	"sync"
	"sync/atomic"
	"testing"
	"time"

	"github.com/celestiaorg/celestia-node/share/eds"
	zv "github.com/celestiaorg/celestia-node/zzverif"
)

// The case terms avoid numerals, pair notations and scope delimiters: every number is a constant defined once in the
// header and every pair is built by a helper function (elaborating the literal notations costs Coq far more time than
// evaluating the model on the case).
var c08CacheHeader = func() string {
	var sb strings.Builder
	sb.WriteString(`From Coq Require Import List ZArith NArith.
From CN Require Import Store.CacheRef.
Import ListNotations.
Open Scope N_scope.
Definition sn (l : list (N * nat)) (e : list (Z * bool * nat)) : option snapshot := Some (l, e).
Definition no : option snapshot := None.
Definition lp (h : N) (e : nat) : N * nat := (h, e).
Definition en (r : Z) (c : bool) (k : nat) : Z * bool * nat := (r, c, k).
Definition q (e : ev2) (o : option snapshot) : ev2 * option snapshot := (e, o).
Definition cc (cap n : nat) (l : list (ev2 * option snapshot)) : cache_case := (cap, n, l).
`)
	for i := 0; i < c08NatConsts; i++ {
		fmt.Fprintf(&sb, "Definition n%d := %d%%nat.\n", i, i)
	}
	for i := 0; i < c08ZConsts; i++ {
		fmt.Fprintf(&sb, "Definition z%d := %d%%Z.\n", i, i)
	}
	for _, h := range c08Heights {
		fmt.Fprintf(&sb, "Definition h%d := %d%%N.\n", h, h)
	}
	return sb.String()
}()

const (
	c08NatConsts = 128
	c08ZConsts   = 16
)

// three heights on one lock stripe of the cache and one beside
var c08Heights = []uint64{7, 7 + 256, 7 + 512, 8}

func c08Nat(i int) string {
	if i >= 0 && i < c08NatConsts {
		return fmt.Sprintf("n%d", i)
	}
	return fmt.Sprintf("%d%%nat", i)
}

func c08Z(i int64) string {
	if i >= 0 && i < c08ZConsts {
		return fmt.Sprintf("z%d", i)
	}
	return zv.Z(i)
}

func c08H(h uint64) string {
	for _, x := range c08Heights {
		if x == h {
			return fmt.Sprintf("h%d", h)
		}
	}
	return zv.N(h)
}

type c08Mock struct {
	NoopFile
	id      int
	closes  atomic.Int32
	acc     atomic.Pointer[accessor]
	badRefs atomic.Int32 // Close() observed with references outstanding
}

func (m *c08Mock) Close() error {
	m.closes.Add(1)
	if a := m.acc.Load(); a != nil && a.refs.Load() != 0 {
		m.badRefs.Add(1)
	}
	return nil
}

type c08Slot struct {
	state int // 0 idle, 1 holds a reference, 2 blocked in Remove
	rc    eds.AccessorStreamer
	ent   int
	h     uint64
	done  chan error
}

type c08Closer struct {
	idx   int // goroutine index in the model
	ent   int
	phase int // 0 spawned, 1 waiting for the readers, 2 finished
}

type c08Script struct {
	Cap   int      `json:"cap"`
	N     int      `json:"n"`
	Seed  uint64   `json:"seed"`
	Ops   []string `json:"ops"`
	Steps []string `json:"steps"`
}

type c08Run struct {
	t       *testing.T
	zr      *zv.Run
	bc      *AccessorCache
	slots   []*c08Slot
	closers []*c08Closer
	ents    []*accessor
	mocks   []*c08Mock
	index   map[*accessor]int
	closed  map[int]bool // entries on which somebody has run close (1)
	mu      sync.Mutex   // loader bookkeeping
	pending []string     // events of the current operation
	before  [][2]uint64  // LRU content when the current operation began
	script  c08Script
	failed  string

	nBlocked, nEvict, nReplace, nLoadFail, nMissClosed int
}

// c08Patience bounds the waits for a goroutine of the real cache to reach its next blocking point (it only has to be
// scheduled): generous for a loaded machine, and a run stops after three scripts that ran into it.
const c08Patience = 20 * time.Second

func c08WaitFor(cond func() bool) bool {
	deadline := time.Now().Add(c08Patience)
	for i := 0; !cond(); i++ {
		if time.Now().After(deadline) {
			return false
		}
		if i < 100 {
			time.Sleep(20 * time.Microsecond)
		} else {
			time.Sleep(time.Millisecond)
		}
	}
	return true
}

func (r *c08Run) isClosed(a *accessor) bool {
	a.lock.Lock()
	defer a.lock.Unlock()
	return a.isClosed
}

// pairs: LRU content, most recently used first, as (key, entry index)
func (r *c08Run) pairs() [][2]uint64 {
	keys := r.bc.cache.Keys() // oldest first
	out := make([][2]uint64, 0, len(keys))
	for i := len(keys) - 1; i >= 0; i-- {
		a, ok := r.bc.cache.Peek(keys[i])
		if !ok {
			continue
		}
		out = append(out, [2]uint64{keys[i], uint64(r.index[a])})
	}
	return out
}

func (r *c08Run) peek(h uint64) (int, bool) {
	a, ok := r.bc.cache.Peek(h)
	if !ok {
		return 0, false
	}
	return r.index[a], true
}

func (r *c08Run) snapshot() string {
	var l, e []string
	for _, p := range r.pairs() {
		l = append(l, fmt.Sprintf("lp %s %s", c08H(p[0]), c08Nat(int(p[1]))))
	}
	for i, a := range r.ents {
		e = append(e, fmt.Sprintf("en %s %s %s", c08Z(int64(a.refs.Load())), zv.Bool(r.isClosed(a)), c08Nat(int(r.mocks[i].closes.Load()))))
	}
	return "(sn [" + strings.Join(l, "; ") + "] [" + strings.Join(e, "; ") + "])"
}

func (r *c08Run) ev(s string) { r.pending = append(r.pending, s) }

// flush attaches the snapshot of the real cache to the last event of the operation
func (r *c08Run) flush() {
	if len(r.pending) == 0 {
		return
	}
	for i, e := range r.pending {
		o := "no"
		if i == len(r.pending)-1 {
			o = r.snapshot()
		}
		r.script.Steps = append(r.script.Steps, "q ("+e+") "+o)
	}
	r.pending = r.pending[:0]
	// L3: a holder never sees a closed accessor; Close() at most once and never with references out
	for t, s := range r.slots {
		if s.state == 1 && r.mocks[s.ent].closes.Load() != 0 {
			r.violation("closed-under-reader", fmt.Sprintf("slot %d holds a reference of entry %d whose accessor has been closed", t, s.ent))
		}
	}
	for i, m := range r.mocks {
		if m.closes.Load() > 1 {
			r.violation("double-close", fmt.Sprintf("accessor of entry %d closed %d times", i, m.closes.Load()))
		}
		if m.badRefs.Load() > 0 {
			r.violation("close-with-refs", fmt.Sprintf("accessor of entry %d closed while references were outstanding", i))
		}
	}
}

func (r *c08Run) violation(sig, desc string) {
	r.zr.Violation("cache-"+sig, desc, r.script)
}

func (r *c08Run) spawnCloser(ent int) {
	c := &c08Closer{idx: len(r.slots) + len(r.closers), ent: ent}
	r.closers = append(r.closers, c)
}

// settle lets every goroutine that can run (eviction goroutines, removers whose entry has no reference left) run to
// its next blocking point, in a fixed order, and records their steps
func (r *c08Run) settle() {
	for changed := true; changed && r.failed == ""; {
		changed = false
		for t, s := range r.slots {
			if s.state != 2 || r.ents[s.ent].refs.Load() != 0 {
				continue
			}
			// what lru.Remove evicts is decided by the LRU content BEFORE the operation that released the last reference:
			// the remover runs on as soon as that reference is gone, possibly before this line
			before := r.before
			select {
			case err := <-s.done:
				if err != nil {
					r.failed = fmt.Sprintf("Remove returned %v", err)
					return
				}
			case <-time.After(c08Patience):
				r.failed = fmt.Sprintf("Remove of height %d still blocked although entry %d has no reference", s.h, s.ent)
				r.violation("remove-hangs", r.failed)
				return
			}
			r.ev(fmt.Sprintf("CStep %s true", c08Nat(t))) // the wait ends, Close()
			r.ev(fmt.Sprintf("CStep %s true", c08Nat(t))) // lru.Remove
			r.afterLruRemove(before, s.h)
			s.state = 0
			changed = true
		}
		for _, c := range r.closers {
			a := r.ents[c.ent]
			switch c.phase {
			case 0:
				if r.closed[c.ent] {
					// somebody else closes this entry: the goroutine returns at once
					r.ev(fmt.Sprintf("CStep %s true", c08Nat(c.idx)))
					c.phase = 2
				} else {
					if !c08WaitFor(func() bool { return r.isClosed(a) }) {
						r.failed = fmt.Sprintf("eviction goroutine of entry %d did not start closing", c.ent)
						r.violation("evict-hangs", r.failed)
						return
					}
					r.closed[c.ent] = true
					r.ev(fmt.Sprintf("CStep %s true", c08Nat(c.idx)))
					c.phase = 1
				}
				changed = true
			case 1:
				if a.refs.Load() == 0 {
					if !c08WaitFor(func() bool { return r.mocks[c.ent].closes.Load() >= 1 }) {
						r.failed = fmt.Sprintf("eviction goroutine of entry %d does not close although no reference is left", c.ent)
						r.violation("evict-hangs", r.failed)
						return
					}
					r.ev(fmt.Sprintf("CStep %s true", c08Nat(c.idx)))
					c.phase = 2
					changed = true
				}
			}
		}
	}
}

// afterLruRemove: lru.Remove(h) calls the eviction callback for whatever was stored under h
func (r *c08Run) afterLruRemove(before [][2]uint64, h uint64) {
	for _, p := range before {
		if p[0] == h {
			r.spawnCloser(int(p[1]))
		}
	}
}

func (r *c08Run) loader(ok bool) OpenAccessorFn {
	return func(context.Context) (eds.AccessorStreamer, error) {
		if !ok {
			return nil, errors.New("load failed")
		}
		m := &c08Mock{id: len(r.mocks)}
		r.mocks = append(r.mocks, m)
		return m, nil
	}
}

func (r *c08Run) opGet(t int, h uint64) {
	s := r.slots[t]
	ent, present := r.peek(h)
	r.ev(fmt.Sprintf("CGet %s %s", c08Nat(t), c08H(h)))
	acc, err := r.bc.Get(h)
	if present {
		r.ev(fmt.Sprintf("CStep %s true", c08Nat(t)))
	}
	if err == nil {
		if !present || r.closed[ent] {
			r.failed = "Get handed out a reference the script did not expect"
			r.violation("addref-after-closed", fmt.Sprintf("Get(%d) returned entry %d after its isClosed was set", h, ent))
		}
		s.state, s.rc, s.ent = 1, acc, ent
	} else if present && !r.closed[ent] {
		r.failed = "Get missed an open entry"
	} else if present {
		r.nMissClosed++
	}
}

func (r *c08Run) opGetOrLoad(t int, h uint64, ok bool) {
	s := r.slots[t]
	ent, present := r.peek(h)
	before := r.pairs()
	r.ev(fmt.Sprintf("CGol %s %s", c08Nat(t), c08H(h)))
	nMocks := len(r.mocks)
	acc, err := r.bc.GetOrLoad(context.Background(), h, r.loader(ok))
	if present {
		r.ev(fmt.Sprintf("CStep %s true", c08Nat(t))) // addRef
		if !r.closed[ent] {
			if err != nil || len(r.mocks) != nMocks {
				r.failed = "GetOrLoad did not reuse an open entry"
				return
			}
			s.state, s.rc, s.ent = 1, acc, ent
			return
		}
		r.nReplace++
	}
	r.ev(fmt.Sprintf("CStep %s %s", c08Nat(t), zv.Bool(ok))) // load, addRef, lru.Add
	if !ok {
		r.nLoadFail++
		if err == nil {
			r.failed = "GetOrLoad succeeded although the loader failed"
		}
		return
	}
	if err != nil || len(r.mocks) != nMocks+1 {
		r.failed = fmt.Sprintf("GetOrLoad: %v", err)
		return
	}
	rc, isRC := acc.(*refCloser)
	if !isRC {
		r.failed = "GetOrLoad did not return a refCloser"
		return
	}
	n := len(r.ents)
	r.ents = append(r.ents, rc.accessor)
	r.index[rc.accessor] = n
	r.mocks[n].acc.Store(rc.accessor)
	s.state, s.rc, s.ent = 1, acc, n
	// eviction: an entry under ANOTHER key left the LRU (the callback runs); a replaced entry under h does not
	after := map[uint64]bool{}
	for _, p := range r.pairs() {
		after[p[1]] = true
	}
	for _, p := range before {
		if !after[p[1]] && p[0] != h {
			r.spawnCloser(int(p[1]))
			r.nEvict++
		}
	}
}

func (r *c08Run) opRemove(t int, h uint64) {
	s := r.slots[t]
	ent, present := r.peek(h)
	r.ev(fmt.Sprintf("CRm %s %s", c08Nat(t), c08H(h)))
	if !present {
		if err := r.bc.Remove(h); err != nil {
			r.failed = fmt.Sprintf("Remove: %v", err)
		}
		return
	}
	a := r.ents[ent]
	if r.closed[ent] || a.refs.Load() == 0 {
		before := r.pairs()
		if err := r.bc.Remove(h); err != nil {
			r.failed = fmt.Sprintf("Remove: %v", err)
			return
		}
		r.ev(fmt.Sprintf("CStep %s true", c08Nat(t))) // close (1)
		if !r.closed[ent] {
			r.closed[ent] = true
			r.ev(fmt.Sprintf("CStep %s true", c08Nat(t))) // the wait is over at once, Close()
		}
		r.ev(fmt.Sprintf("CStep %s true", c08Nat(t))) // lru.Remove
		r.afterLruRemove(before, h)
		return
	}
	// has to wait for the readers
	s.state, s.ent, s.h, s.done = 2, ent, h, make(chan error, 1)
	go func(done chan error) { done <- r.bc.Remove(h) }(s.done)
	if !c08WaitFor(func() bool { return r.isClosed(a) }) {
		r.failed = "Remove did not reach its wait"
		r.violation("remove-hangs", r.failed)
		return
	}
	r.closed[ent] = true
	r.ev(fmt.Sprintf("CStep %s true", c08Nat(t))) // close (1)
	r.nBlocked++
}

func (r *c08Run) opRelease(t int) {
	s := r.slots[t]
	r.ev(fmt.Sprintf("CRelease %s", c08Nat(t)))
	_ = s.rc.Close()
	_ = s.rc.Close() // a second Close of the same refCloser must not release twice
	s.state, s.rc = 0, nil
}

func c08RunScript(t *testing.T, zr *zv.Run, seed uint64, cap, n, nops int, heights []uint64) *c08Run {
	bc, err := NewAccessorCache("verif", cap)
	if err != nil {
		t.Fatal(err)
	}
	r := &c08Run{t: t, zr: zr, bc: bc, index: map[*accessor]int{}, closed: map[int]bool{}}
	r.script = c08Script{Cap: cap, N: n, Seed: seed}
	for i := 0; i < n; i++ {
		r.slots = append(r.slots, &c08Slot{})
	}
	rng := zv.NewRand(seed)
	step := func(name string, f func()) {
		r.script.Ops = append(r.script.Ops, name)
		r.before = r.pairs()
		f()
		if r.failed == "" {
			r.settle()
		}
		r.flush()
	}
	for i := 0; i < nops && r.failed == ""; i++ {
		t0 := rng.Intn(n)
		s := r.slots[t0]
		h := zv.Pick(rng, heights)
		switch s.state {
		case 0:
			switch x := rng.Intn(100); {
			case x < 40:
				ok := !rng.Chance(10)
				step(fmt.Sprintf("getorload %d %d %v", t0, h, ok), func() { r.opGetOrLoad(t0, h, ok) })
			case x < 65:
				step(fmt.Sprintf("get %d %d", t0, h), func() { r.opGet(t0, h) })
			default:
				step(fmt.Sprintf("remove %d %d", t0, h), func() { r.opRemove(t0, h) })
			}
		case 1:
			if rng.Chance(70) {
				step(fmt.Sprintf("release %d", t0), func() { r.opRelease(t0) })
			}
		}
	}
	// wind down: release everything, let every closer finish
	for t0, s := range r.slots {
		if s.state == 1 && r.failed == "" {
			step(fmt.Sprintf("release %d", t0), func() { r.opRelease(t0) })
		}
	}
	if r.failed == "" {
		inLru := map[int]bool{}
		for _, p := range r.pairs() {
			inLru[int(p[1])] = true
		}
		for i, m := range r.mocks {
			switch c := m.closes.Load(); {
			case inLru[i] && (c != 0 || r.isClosed(r.ents[i])):
				r.violation("closed-in-lru", fmt.Sprintf("entry %d is still cached but closed (%d)", i, c))
			case !inLru[i] && c != 1:
				r.violation("leak", fmt.Sprintf("entry %d left the cache, all references are released, Close() calls: %d", i, c))
			}
		}
		for t0, s := range r.slots {
			if s.state != 0 {
				r.violation("remove-hangs", fmt.Sprintf("slot %d still busy after everything was released", t0))
			}
		}
		for _, c := range r.closers {
			if c.phase != 2 {
				r.violation("evict-hangs", fmt.Sprintf("eviction goroutine of entry %d still busy after everything was released", c.ent))
			}
		}
	}
	return r
}

func TestVerifC08Cache(t *testing.T) {
	r := zv.Start(t, "C08")
	defer r.Finish()
	// several groups = several case files, which the driver evaluates in parallel
	var groups []*zv.Group
	for i := 0; i < r.N(3, 12); i++ {
		groups = append(groups, r.Group(fmt.Sprintf("cache%d", i), c08CacheHeader, "cache_case", "CN.Store.CacheRef.mismatches"))
	}

	var rep c08Script
	if r.ReplayInput(&rep) && rep.N > 0 {
		run := c08RunScript(t, r, rep.Seed, rep.Cap, rep.N, len(rep.Ops)+8, c08Heights)
		t.Logf("replayed cache script seed=%d cap=%d: %s", rep.Seed, rep.Cap, run.failed)
	}

	root := r.Rand()
	ncases, aborted := r.N(360, 4800), 0
	for i := 0; i < ncases; i++ {
		seed := root.U64()
		cap := 1 + i%3
		n := 3 + i%3
		nops := 12 + int(seed%28)
		run := c08RunScript(t, r, seed, cap, n, nops, c08Heights)
		if run.failed != "" {
			r.Count("cache_script", "aborted")
			r.Violation("cache-script-aborted", run.failed, run.script)
			// a script aborts when the real cache leaves the script's expectations, possibly after waiting out one of the
			// harness's patience limits: a few of them are evidence enough, the rest of the run would only wait again
			if aborted++; aborted >= 3 {
				r.Set("cache_scripts_stopped_after", i+1)
				break
			}
			continue
		}
		term := fmt.Sprintf("cc %s %s [%s]", c08Nat(cap), c08Nat(n), strings.Join(run.script.Steps, ";\n    "))
		key := ""
		if run.nBlocked > 0 && (run.nEvict > 0 || run.nReplace > 0) {
			key = fmt.Sprint(seed)
		}
		groups[i%len(groups)].Case(term, run.script, key)
		r.Count("cache_script", "ok")
		r.Count("cache_cap", fmt.Sprint(cap))
		for k, v := range map[string]int{"blocked_remove": run.nBlocked, "eviction": run.nEvict, "replace_closed": run.nReplace,
			"load_fail": run.nLoadFail, "get_on_closed": run.nMissClosed} {
			for j := 0; j < v; j++ {
				r.Count("cache_events", k)
			}
		}
	}
}

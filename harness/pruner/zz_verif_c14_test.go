//go:build verif

package pruner

// C14 correspondence + oracle harness (see /verif/DESIGN.md, C14).
//
// The REAL pruner.Service (NewService / Start / prune / pruneOnHeaderDelete / ResetCheckpoint / Stop, the real checkpoint
// persistence in a datastore) is driven through generated histories over a fake header store with arbitrary block times and a
// scripted Pruner (failure pattern per height and attempt).  maxHeadersPerLoop is overridden per history.
//
// L2: every history with the observations made after each event (heights handed to Prune and their outcome, in-memory and
//     persisted checkpoint) is written as a Coq case for CN.Pruner.Cycle.mismatches.
// L3: oracles on the implementation: no header inside the window is handed to Prune by a cycle/retry; a cycle returns
//     (watchdog on the number of calls); the checkpoint never moves backwards (memory: except Reset/Crash; disk: except
//     Reset) and Stop persists exactly the memory checkpoint; after a cycle every old-enough height after the start is
//     pruned or recorded failed; every failed height still in the store is retried by every cycle.

import (
	"context"
	"errors"
	"fmt"
	"sort"
	"sync"
	"testing"
	"time"

	"github.com/ipfs/go-datastore"
	dssync "github.com/ipfs/go-datastore/sync"

	"github.com/celestiaorg/celestia-app/v9/pkg/da"
	libhead "github.com/celestiaorg/go-header"

	"github.com/celestiaorg/celestia-node/header"
	zv "github.com/celestiaorg/celestia-node/zzverif"
)

const c14Header = `From Coq Require Import List ZArith.
From CN Require Import Pruner.Find Pruner.Cycle.
Import ListNotations.
Open Scope Z_scope.
`

var c14Base = time.Unix(1_700_000_000, 0).UTC()

// ---------------------------------------------------------------- history (self-contained, JSON-replayable)

type c14Script struct {
	H       uint64 `json:"h"`
	Pat     []bool `json:"pat"` // Pat[n] = the n-th Prune call for this height fails
	Default bool   `json:"default"`
}

type c14Event struct {
	Kind  string  `json:"kind"` // cycle | append | delete | drop | restart | crash | reset
	Times []int64 `json:"times,omitempty"`
	H     uint64  `json:"h,omitempty"`
	Inner bool    `json:"inner,omitempty"`
}

type c14Hist struct {
	Window    int64       `json:"window_ns"`
	BlockTime int64       `json:"block_time_ns"`
	MaxH      int         `json:"max_headers_per_loop"`
	Tail      uint64      `json:"tail"`
	Times     []int64     `json:"times_ns"` // offsets from c14Base of heights Tail, Tail+1, ...
	Script    []c14Script `json:"script"`
	DefFail   bool        `json:"default_fail"`
	Events    []c14Event  `json:"events"`
	Monotone  bool        `json:"monotone_times"`
}

type c14Call struct {
	H    uint64 `json:"h"`
	OK   bool   `json:"ok"`
	Hook bool   `json:"hook,omitempty"`
	t    time.Time
	cut  time.Time
}

type c14Obs struct {
	Calls      []c14Call `json:"calls"`
	MemLP      uint64    `json:"mem_lp"`
	MemFailed  []uint64  `json:"mem_failed"`
	DiskLP     uint64    `json:"disk_lp"`
	DiskFailed []uint64  `json:"disk_failed"`
}

// ---------------------------------------------------------------- fake header store

var errC14Watchdog = errors.New("verif watchdog tripped")

type c14Store struct {
	mu       sync.Mutex
	cond     *sync.Cond
	tail     uint64
	hdrs     []*header.ExtendedHeader
	onDelete func(context.Context, uint64) error
	tailN    int // number of Tail calls
	wd       *c14Watchdog
}

// c14Watchdog bounds the work of one event: when the budget is exhausted the service context is cancelled and the store
// starts failing, which makes every loop of the pruner return.
type c14Watchdog struct {
	mu      sync.Mutex
	budget  int
	used    int
	tripped bool
	cancel  func()
}

func (w *c14Watchdog) tick() bool {
	w.mu.Lock()
	defer w.mu.Unlock()
	w.used++
	if !w.tripped && w.used > w.budget {
		w.tripped = true
		if w.cancel != nil {
			w.cancel()
		}
	}
	return w.tripped
}

func (w *c14Watchdog) reset(budget int, cancel func()) {
	w.mu.Lock()
	defer w.mu.Unlock()
	w.budget, w.used, w.tripped, w.cancel = budget, 0, false, cancel
}

func (w *c14Watchdog) isTripped() bool {
	w.mu.Lock()
	defer w.mu.Unlock()
	return w.tripped
}

func c14MkHeader(h uint64, off int64) *header.ExtendedHeader {
	eh := &header.ExtendedHeader{DAH: &da.DataAvailabilityHeader{}}
	eh.RawHeader.Height = int64(h)
	eh.RawHeader.Time = c14Base.Add(time.Duration(off))
	return eh
}

func newC14Store(tail uint64, times []int64, wd *c14Watchdog) *c14Store {
	s := &c14Store{tail: tail, wd: wd}
	s.cond = sync.NewCond(&s.mu)
	for i, t := range times {
		s.hdrs = append(s.hdrs, c14MkHeader(tail+uint64(i), t))
	}
	return s
}

func (s *c14Store) headLocked() *header.ExtendedHeader { return s.hdrs[len(s.hdrs)-1] }

func (s *c14Store) Head(context.Context, ...libhead.HeadOption[*header.ExtendedHeader]) (*header.ExtendedHeader, error) {
	if s.wd.tick() {
		return nil, errC14Watchdog
	}
	s.mu.Lock()
	defer s.mu.Unlock()
	if len(s.hdrs) == 0 {
		return nil, libhead.ErrEmptyStore
	}
	return s.headLocked(), nil
}

func (s *c14Store) Tail(context.Context) (*header.ExtendedHeader, error) {
	s.mu.Lock()
	s.tailN++
	s.cond.Broadcast()
	s.mu.Unlock()
	if s.wd.tick() {
		return nil, errC14Watchdog
	}
	s.mu.Lock()
	defer s.mu.Unlock()
	if len(s.hdrs) == 0 {
		return nil, libhead.ErrEmptyStore
	}
	return s.hdrs[0], nil
}

func (s *c14Store) tailCalls() int {
	s.mu.Lock()
	defer s.mu.Unlock()
	return s.tailN
}

func (s *c14Store) waitTailCalls(n int) {
	s.mu.Lock()
	for s.tailN <= n {
		s.cond.Wait()
	}
	s.mu.Unlock()
}

func (s *c14Store) getLocked(h uint64) (*header.ExtendedHeader, error) {
	if h < s.tail || h >= s.tail+uint64(len(s.hdrs)) {
		return nil, libhead.ErrNotFound
	}
	return s.hdrs[h-s.tail], nil
}

func (s *c14Store) GetByHeight(_ context.Context, h uint64) (*header.ExtendedHeader, error) {
	if s.wd.tick() {
		return nil, errC14Watchdog
	}
	s.mu.Lock()
	defer s.mu.Unlock()
	return s.getLocked(h)
}

func (s *c14Store) GetRangeByHeight(_ context.Context, from *header.ExtendedHeader, to uint64) ([]*header.ExtendedHeader, error) {
	if s.wd.tick() {
		return nil, errC14Watchdog
	}
	s.mu.Lock()
	defer s.mu.Unlock()
	lo := from.Height() + 1
	if lo >= to {
		return nil, fmt.Errorf("invalid range(%d,%d)", lo, to)
	}
	out := make([]*header.ExtendedHeader, 0, to-lo)
	for h := lo; h < to; h++ {
		eh, err := s.getLocked(h)
		if err != nil {
			return nil, err
		}
		out = append(out, eh)
	}
	return out, nil
}

func (s *c14Store) Get(context.Context, libhead.Hash) (*header.ExtendedHeader, error) {
	return nil, libhead.ErrNotFound
}
func (s *c14Store) Height() uint64 {
	s.mu.Lock()
	defer s.mu.Unlock()
	return s.tail + uint64(len(s.hdrs)) - 1
}
func (s *c14Store) Has(context.Context, libhead.Hash) (bool, error) { return false, nil }
func (s *c14Store) HasAt(_ context.Context, h uint64) bool {
	s.mu.Lock()
	defer s.mu.Unlock()
	_, err := s.getLocked(h)
	return err == nil
}
func (s *c14Store) Append(context.Context, ...*header.ExtendedHeader) error { return errors.New("unused") }
func (s *c14Store) GetRange(context.Context, uint64, uint64) ([]*header.ExtendedHeader, error) {
	return nil, errors.New("unused")
}
func (s *c14Store) DeleteRange(context.Context, uint64, uint64) error { return errors.New("unused") }
func (s *c14Store) OnDelete(fn func(context.Context, uint64) error) {
	s.mu.Lock()
	defer s.mu.Unlock()
	s.onDelete = fn // a restarted node has only the new service's handler
}

func (s *c14Store) appendTimes(times []int64) {
	s.mu.Lock()
	defer s.mu.Unlock()
	for _, t := range times {
		s.hdrs = append(s.hdrs, c14MkHeader(s.tail+uint64(len(s.hdrs)), t))
	}
}

func (s *c14Store) dropTail() {
	s.mu.Lock()
	defer s.mu.Unlock()
	if len(s.hdrs) >= 2 {
		s.hdrs = s.hdrs[1:]
		s.tail++
	}
}

// ---------------------------------------------------------------- scripted Pruner

type c14Pruner struct {
	mu       sync.Mutex
	script   map[uint64]c14Script
	defFail  bool
	attempts map[uint64]int
	calls    []c14Call
	okSet    map[uint64]bool
	store    *c14Store
	window   time.Duration
	wd       *c14Watchdog
	nextHook bool
	inner    func()
}

func (p *c14Pruner) Prune(_ context.Context, eh *header.ExtendedHeader) error {
	p.mu.Lock()
	h := eh.Height()
	n := p.attempts[h]
	p.attempts[h] = n + 1
	fail := p.defFail
	if sc, ok := p.script[h]; ok {
		fail = sc.Default
		if n < len(sc.Pat) {
			fail = sc.Pat[n]
		}
	}
	p.store.mu.Lock()
	cut := p.store.headLocked().Time().Add(-p.window)
	p.store.mu.Unlock()
	hook := p.nextHook
	p.nextHook = false
	p.calls = append(p.calls, c14Call{H: h, OK: !fail, Hook: hook, t: eh.Time(), cut: cut})
	if !fail {
		p.okSet[h] = true
	}
	inner := p.inner
	if hook {
		p.inner = nil
	}
	p.mu.Unlock()
	p.wd.tick()
	if hook && inner != nil {
		inner() // a whole cycle runs while the on-delete hook's Prune call is executing (the hook holds no lock here)
	}
	if fail {
		return errors.New("scripted prune failure")
	}
	return nil
}

func (p *c14Pruner) takeCalls() []c14Call {
	p.mu.Lock()
	defer p.mu.Unlock()
	c := p.calls
	p.calls = nil
	return c
}

// ---------------------------------------------------------------- running one history on the real service

type c14Runner struct {
	r     *zv.Run
	hist  c14Hist
	store *c14Store
	pr    *c14Pruner
	ds    datastore.Datastore
	wd    *c14Watchdog
	serv  *Service
	ctx   context.Context
	obs   []c14Obs
	bad   bool // a violation made the rest of the history meaningless
	// oracle state
	base       uint64 // heights <= base are not owed by the pruner (start, reset, hook-deleted heights, below the store tail)
	cycles     int
	hadFailure bool
}

func (x *c14Runner) violation(sig, desc string) {
	x.r.Violation(sig, desc, x.hist)
}

func (x *c14Runner) newService() error {
	s, err := NewService(x.pr, time.Duration(x.hist.Window), x.store, x.ds, time.Duration(x.hist.BlockTime), WithPruneCycle(time.Hour))
	if err != nil {
		return err
	}
	x.serv = s
	return nil
}

func (x *c14Runner) budget() int {
	x.store.mu.Lock()
	n := len(x.store.hdrs)
	x.store.mu.Unlock()
	m := x.hist.MaxH
	if m > n {
		m = n
	}
	// a terminating cycle has at most n loop iterations of at most m Prune calls and m+4 store calls each
	return 2000 + 30*n*(m+4)
}



// startService = NewService + Start, then waits (on events, not on time) until the cycle that Start's goroutine runs is over.
func (x *c14Runner) startService(first bool) bool {
	if err := x.newService(); err != nil {
		x.violation("harness", "NewService: "+err.Error())
		return false
	}
	x.wd.reset(x.budget(), nil)
	n0 := x.store.tailCalls()
	if err := x.serv.Start(x.ctx); err != nil {
		x.violation("harness", "Start: "+err.Error())
		return false
	}
	x.wd.mu.Lock()
	x.wd.cancel = x.serv.cancel
	if x.wd.tripped {
		x.serv.cancel()
	}
	x.wd.mu.Unlock()
	// Start's loadCheckpoint calls hstore.Tail once iff no checkpoint is persisted yet (resetCheckpoint); prune() calls
	// hstore.Tail first thing while holding checkpointMu, and holds it until the cycle is over.
	k := 0
	if first {
		k = 1
	}
	x.store.waitTailCalls(n0 + k)
	x.serv.checkpointMu.Lock()
	x.serv.checkpointMu.Unlock() //nolint:staticcheck
	return true
}

// stopService: graceful = the real Stop (persists); otherwise only the goroutine is ended (crash: nothing is persisted).
func (x *c14Runner) stopService(graceful bool) bool {
	if graceful {
		ctx, cancel := context.WithTimeout(x.ctx, 20*time.Second)
		defer cancel()
		memLP, memFailed := x.memCheckpoint()
		if err := x.serv.Stop(ctx); err != nil {
			x.violation("stop-failed", "Stop: "+err.Error())
			return false
		}
		cp, err := getCheckpoint(x.ctx, x.serv.ds)
		if err != nil {
			x.violation("checkpoint-not-persisted", "no readable checkpoint after Stop: "+err.Error())
			return false
		}
		if cp.LastPrunedHeight != memLP || fmt.Sprint(sortedKeys(cp.FailedHeaders)) != fmt.Sprint(memFailed) {
			x.violation("checkpoint-not-persisted", fmt.Sprintf("Stop persisted (%d,%v), memory had (%d,%v)",
				cp.LastPrunedHeight, sortedKeys(cp.FailedHeaders), memLP, memFailed))
		}
		return true
	}
	x.serv.cancel()
	<-x.serv.doneCh
	return true
}

func (x *c14Runner) memCheckpoint() (uint64, []uint64) {
	x.serv.checkpointMu.Lock()
	defer x.serv.checkpointMu.Unlock()
	if x.serv.checkpoint == nil {
		return 0, nil
	}
	return x.serv.checkpoint.LastPrunedHeight, sortedKeys(x.serv.checkpoint.FailedHeaders)
}

func (x *c14Runner) observe() c14Obs {
	o := c14Obs{Calls: x.pr.takeCalls()}
	o.MemLP, o.MemFailed = x.memCheckpoint()
	if cp, err := getCheckpoint(x.ctx, x.serv.ds); err == nil && cp != nil {
		o.DiskLP, o.DiskFailed = cp.LastPrunedHeight, sortedKeys(cp.FailedHeaders)
	}
	if o.MemFailed == nil {
		o.MemFailed = []uint64{}
	}
	if o.DiskFailed == nil {
		o.DiskFailed = []uint64{}
	}
	if o.Calls == nil {
		o.Calls = []c14Call{}
	}
	return o
}

// guarded runs f; if it does not come back within the wall-clock backstop the whole run is abandoned.
func (x *c14Runner) guarded(f func()) bool {
	done := make(chan struct{})
	go func() {
		defer close(done)
		f()
	}()
	select {
	case <-done:
		return true
	case <-time.After(120 * time.Second):
		return false
	}
}

// step runs one event on the real service and applies the implementation oracles. It returns false when the history cannot
// be continued.
func (x *c14Runner) step(i int, e c14Event) bool {
	preLP, preFailed := uint64(0), []uint64(nil)
	var preDisk uint64
	var preDiskFailed []uint64
	if x.serv != nil {
		preLP, preFailed = x.memCheckpoint()
		if cp, err := getCheckpoint(x.ctx, x.serv.ds); err == nil {
			preDisk = cp.LastPrunedHeight
			preDiskFailed = sortedKeys(cp.FailedHeaders)
		}
	}
	x.store.mu.Lock()
	preTail := x.store.tail
	x.store.mu.Unlock()
	isCycle := false
	ok := true
	fin := x.guarded(func() {
		switch e.Kind {
		case "cycle":
			isCycle = true
			if x.serv == nil {
				ok = x.startService(true)
				return
			}
			x.wd.reset(x.budget(), x.serv.cancel)
			x.serv.prune(x.serv.ctx)
		case "append":
			x.store.appendTimes(e.Times)
		case "drop":
			x.store.dropTail()
		case "delete":
			x.wd.reset(x.budget(), x.serv.cancel)
			x.pr.mu.Lock()
			x.pr.nextHook = true
			if e.Inner {
				x.pr.inner = func() { x.serv.prune(x.serv.ctx) }
			}
			x.pr.mu.Unlock()
			x.store.mu.Lock()
			hook := x.store.onDelete
			x.store.mu.Unlock()
			_ = hook(x.ctx, e.H)
			x.pr.mu.Lock()
			x.pr.nextHook, x.pr.inner = false, nil
			x.pr.mu.Unlock()
			if e.H > x.base {
				x.base = e.H
			}
		case "restart", "crash":
			isCycle = true
			if !x.stopService(e.Kind == "restart") {
				ok = false
				return
			}
			ok = x.startService(false)
		case "reset":
			x.wd.reset(x.budget(), x.serv.cancel)
			if err := x.serv.ResetCheckpoint(x.ctx); err != nil {
				x.violation("harness", "ResetCheckpoint: "+err.Error())
				ok = false
			}
		}
	})
	if !fin {
		x.violation("cycle-no-return", fmt.Sprintf("event %d (%s) did not return within the wall-clock backstop", i, e.Kind))
		x.bad = true
		return false
	}
	if !ok {
		return false
	}
	if x.wd.isTripped() {
		calls := x.pr.takeCalls()
		lp, _ := x.memCheckpoint()
		x.violation("cycle-no-return", fmt.Sprintf(
			"event %d (%s): the prune cycle does not terminate: %d Prune calls and %d store/prune operations without returning (budget %d), lastPruned stays %d; batch limit %d",
			i, e.Kind, len(calls), x.wd.used, x.wd.budget, lp, x.hist.MaxH))
		x.bad = true
		return false
	}
	o := x.observe()
	x.obs = append(x.obs, o)

	// ---- L3 oracles on the implementation
	failedBefore := map[uint64]bool{}
	for _, h := range preFailed {
		failedBefore[h] = true
	}
	for _, h := range preDiskFailed { // a crash falls back to the persisted failed set
		failedBefore[h] = true
	}
	for _, c := range o.Calls {
		if !c.OK {
			x.hadFailure = true
		}
		if c.Hook {
			continue // the hook prunes what the header store deletes: safety is the store's obligation
		}
		if !x.hist.Monotone && failedBefore[c.H] {
			continue // a retry is only safe when head time never decreases
		}
		if c.t.After(c.cut) {
			x.violation("in-window-prune", fmt.Sprintf(
				"event %d (%s): height %d with time %v was handed to Prune although it is inside the window (head time - window = %v)",
				i, e.Kind, c.H, c.t.Sub(c14Base), c.cut.Sub(c14Base)))
		}
	}
	if e.Kind != "reset" {
		if e.Kind != "crash" && o.MemLP < preLP {
			x.violation("checkpoint-backwards", fmt.Sprintf("event %d (%s): in-memory last pruned height went from %d to %d", i, e.Kind, preLP, o.MemLP))
		}
		if o.DiskLP < preDisk {
			x.violation("checkpoint-backwards", fmt.Sprintf("event %d (%s): persisted last pruned height went from %d to %d", i, e.Kind, preDisk, o.DiskLP))
		}
	} else {
		x.base = preTail
	}
	x.store.mu.Lock()
	tail := x.store.tail
	head := x.store.headLocked()
	hdrs := append([]*header.ExtendedHeader(nil), x.store.hdrs...)
	x.store.mu.Unlock()
	if tail > 0 && tail-1 > x.base {
		x.base = tail - 1 // what lies below the store's tail has no header any more; the block at the tail is owed
	}
	if isCycle || (e.Kind == "delete" && e.Inner && len(o.Calls) > 1) {
		x.cycles++
	}
	if isCycle && x.hist.Monotone && x.hist.Window > 0 {
		called := map[uint64]bool{}
		for _, c := range o.Calls {
			called[c.H] = true
		}
		// every failed height that is still in the store is retried by every cycle
		start := preFailed
		if e.Kind == "crash" {
			start = nil // the set the cycle started from is the persisted one; covered by the model comparison
		}
		for _, h := range start {
			if h >= tail && h <= head.Height() && !called[h] {
				x.violation("failed-not-retried", fmt.Sprintf("event %d (%s): height %d was in the failed set but the cycle did not retry it", i, e.Kind, h))
			}
		}
		// every old-enough height after the starting point is pruned or recorded as failed once the cycle has returned
		cut := head.Time().Add(-time.Duration(x.hist.Window))
		failedNow := map[uint64]bool{}
		for _, h := range o.MemFailed {
			failedNow[h] = true
		}
		x.pr.mu.Lock()
		for _, eh := range hdrs {
			h := eh.Height()
			if h <= x.base {
				continue
			}
			if eh.Time().Add(time.Duration(x.hist.BlockTime)).Before(cut) && !x.pr.okSet[h] && !failedNow[h] {
				x.pr.mu.Unlock()
				sig := "old-block-not-pruned"
				if h == tail {
					sig = "old-block-not-pruned:store-tail"
				}
				x.violation(sig, fmt.Sprintf(
					"event %d (%s): after the cycle height %d (time %v + block time < cutoff %v, start %d) is neither pruned nor recorded as failed; checkpoint %d",
					i, e.Kind, h, eh.Time().Sub(c14Base), cut.Sub(c14Base), x.base, o.MemLP))
				x.pr.mu.Lock()
				break
			}
		}
		x.pr.mu.Unlock()
	}
	return true
}

func c14Run(r *zv.Run, h c14Hist) *c14Runner {
	old := maxHeadersPerLoop
	maxHeadersPerLoop = h.MaxH
	defer func() { maxHeadersPerLoop = old }()

	wd := &c14Watchdog{}
	st := newC14Store(h.Tail, h.Times, wd)
	pr := &c14Pruner{script: map[uint64]c14Script{}, defFail: h.DefFail, attempts: map[uint64]int{}, okSet: map[uint64]bool{},
		store: st, window: time.Duration(h.Window), wd: wd}
	for _, sc := range h.Script {
		pr.script[sc.H] = sc
	}
	ctx, cancel := context.WithCancel(context.Background())
	defer cancel()
	x := &c14Runner{r: r, hist: h, store: st, pr: pr, ds: dssync.MutexWrap(datastore.NewMapDatastore()), wd: wd, ctx: ctx, base: h.Tail}
	for i, e := range h.Events {
		if !x.step(i, e) {
			break
		}
	}
	if x.serv != nil && !x.bad {
		x.serv.cancel()
		select {
		case <-x.serv.doneCh:
		case <-time.After(20 * time.Second):
		}
	}
	return x
}

// ---------------------------------------------------------------- Coq emission

func c14Term(h c14Hist, obs []c14Obs) string {
	zl := func(xs []int64) string {
		out := make([]string, len(xs))
		for i, v := range xs {
			out[i] = zv.Z(v)
		}
		return zv.List(out)
	}
	ul := func(xs []uint64) string {
		out := make([]string, len(xs))
		for i, v := range xs {
			out[i] = zv.ZU(v)
		}
		return zv.List(out)
	}
	tbl := make([]string, len(h.Script))
	for i, sc := range h.Script {
		pat := make([]string, len(sc.Pat))
		for j, b := range sc.Pat {
			pat[j] = zv.Bool(b)
		}
		tbl[i] = zv.Tuple(zv.ZU(sc.H), zv.Tuple(zv.List(pat), zv.Bool(sc.Default)))
	}
	evs := make([]string, 0, len(obs))
	for i, o := range obs {
		e := h.Events[i]
		var et string
		switch e.Kind {
		case "cycle":
			et = "ECycle"
		case "append":
			et = zv.App("EAppend", zl(e.Times))
		case "delete":
			et = zv.App("EDelete", zv.ZU(e.H), zv.Bool(e.Inner))
		case "drop":
			et = "EDrop"
		case "restart":
			et = "ERestart"
		case "crash":
			et = "ECrash"
		case "reset":
			et = "EReset"
		}
		calls := make([]string, len(o.Calls))
		for j, c := range o.Calls {
			calls[j] = zv.Tuple(zv.ZU(c.H), zv.Bool(c.OK))
		}
		evs = append(evs, zv.Tuple(et, zv.Tuple(zv.List(calls), zv.Tuple(zv.ZU(o.MemLP), ul(o.MemFailed)), zv.Tuple(zv.ZU(o.DiskLP), ul(o.DiskFailed)))))
	}
	return zv.Tuple(
		zv.App("mkCfg", zv.Z(h.Window), zv.Z(h.BlockTime), zv.Z(int64(h.MaxH))),
		zv.App("mkStore", zv.ZU(h.Tail), zl(h.Times)),
		zv.List(tbl), zv.Bool(h.DefFail), zv.List(evs))
}

// ---------------------------------------------------------------- generators

func c14GenTimes(rng *zv.Rand, n int, from int64, bt int64, mode int, monotone bool) []int64 {
	out := make([]int64, 0, n)
	t := from
	for i := 0; i < n; i++ {
		var d int64
		switch mode {
		case 0: // as configured
			d = bt
		case 1: // faster than configured
			d = bt/3 + int64(rng.Intn(2))
		case 2: // slower
			d = bt * int64(2+rng.Intn(4))
		default: // irregular: equal timestamps, tiny steps, the estimate, long gaps
			switch rng.Intn(6) {
			case 0:
				d = 0
			case 1:
				d = 1
			case 2:
				d = bt
			case 3:
				d = bt - 1
			case 4:
				d = bt * int64(1+rng.Intn(20))
			default:
				d = int64(rng.Intn(int(2*bt) + 1))
			}
		}
		if !monotone && rng.Chance(25) {
			d = -int64(rng.Intn(int(3*bt) + 1))
		}
		t += d
		out = append(out, t)
	}
	return out
}

func c14Gen(rng *zv.Rand, r *zv.Run) c14Hist {
	h := c14Hist{Monotone: !rng.Chance(10)}
	h.BlockTime = zv.Pick(rng, []int64{1, 3, 10, 1000, 3_000_000_000})
	h.MaxH = 2 + rng.Intn(7)
	if rng.Chance(5) {
		h.MaxH = 512
	}
	switch rng.Intn(4) {
	case 0, 1:
		h.Tail = 1
	case 2:
		h.Tail = uint64(2 + rng.Intn(3))
	default:
		h.Tail = uint64(2 + rng.Intn(5000))
	}
	n := 1 + rng.Intn(50)
	mode := rng.Intn(4)
	h.Times = c14GenTimes(rng, n, int64(rng.Intn(1000))*h.BlockTime, h.BlockTime, mode, h.Monotone)
	// window: mostly so that the cutoff falls at a chosen place of the chain (now or after the appends)
	last := h.Times[n-1]
	switch rng.Intn(10) {
	case 0:
		h.Window = last - h.Times[0] + h.BlockTime*int64(1+rng.Intn(5)) // nothing prunable yet
	case 1:
		h.Window = int64(1 + rng.Intn(3)) // nearly everything
	case 2:
		if rng.Chance(30) {
			h.Window = 0
		} else {
			h.Window = h.BlockTime
		}
	default:
		k := rng.Intn(n)
		h.Window = last - h.Times[k] + zv.Pick(rng, []int64{0, 0, 1, -1, h.BlockTime, -h.BlockTime, h.BlockTime - 1, h.BlockTime + 1})
	}
	if h.Window < 0 {
		h.Window = 0
	}
	// failure script
	hi := h.Tail + uint64(n) + 40
	pick := func() uint64 { return h.Tail + uint64(rng.Intn(int(hi-h.Tail))) }
	mkPat := func() ([]bool, bool) {
		switch rng.Intn(4) {
		case 0:
			return []bool{true}, false // transient
		case 1:
			k := 1 + rng.Intn(4)
			p := make([]bool, k)
			for i := range p {
				p[i] = true
			}
			return p, false
		case 2:
			return nil, true // permanent
		default:
			k := 1 + rng.Intn(5)
			p := make([]bool, k)
			for i := range p {
				p[i] = rng.Bool()
			}
			return p, rng.Chance(20)
		}
	}
	fmode := rng.Intn(10)
	r.Count("failure_mode", []string{"none", "none", "some", "some", "some", "run", "run", "run", "all", "all-then-heal"}[fmode])
	seen := map[uint64]bool{}
	add := func(hh uint64, p []bool, d bool) {
		if !seen[hh] {
			seen[hh] = true
			h.Script = append(h.Script, c14Script{H: hh, Pat: p, Default: d})
		}
	}
	switch fmode {
	case 0, 1:
	case 2, 3, 4:
		for i := 0; i < 1+rng.Intn(6); i++ {
			p, d := mkPat()
			add(pick(), p, d)
		}
	case 5, 6, 7: // a run of consecutive failing heights, often at least a full batch long
		s := pick()
		l := 1 + rng.Intn(2*h.MaxH%40+2)
		p, d := mkPat()
		for i := 0; i < l; i++ {
			add(s+uint64(i), p, d)
		}
		for i := 0; i < rng.Intn(3); i++ {
			p, d := mkPat()
			add(pick(), p, d)
		}
	case 8:
		h.DefFail = true
		for i := 0; i < rng.Intn(4); i++ {
			add(pick(), nil, false)
		}
	case 9: // everything fails once or twice, then heals
		k := 1 + rng.Intn(2)
		p := make([]bool, k)
		for i := range p {
			p[i] = true
		}
		for hh := h.Tail; hh < hi; hh++ {
			add(hh, p, false)
		}
	}
	// events
	h.Events = append(h.Events, c14Event{Kind: "cycle"})
	tail, cnt := h.Tail, n
	ne := 2 + rng.Intn(10)
	for i := 0; i < ne; i++ {
		x := rng.Intn(100)
		switch {
		case x < 32:
			h.Events = append(h.Events, c14Event{Kind: "cycle"})
		case x < 60:
			k := 1 + rng.Intn(10)
			if rng.Chance(15) {
				k = 0
			}
			m := mode
			if rng.Chance(30) {
				m = rng.Intn(4)
			}
			ts := c14GenTimes(rng, k, last, h.BlockTime, m, h.Monotone)
			if k > 0 {
				last = ts[k-1]
			}
			if ts == nil {
				ts = []int64{}
			}
			cnt += k
			h.Events = append(h.Events, c14Event{Kind: "append", Times: ts})
		case x < 72: // the header store deletes its tail: hook first, then the header goes
			k := 1 + rng.Intn(3)
			for j := 0; j < k && cnt >= 2; j++ {
				h.Events = append(h.Events, c14Event{Kind: "delete", H: tail, Inner: rng.Chance(30)})
				h.Events = append(h.Events, c14Event{Kind: "drop"})
				tail++
				cnt--
			}
		case x < 78: // hook for an arbitrary height (parallel deletion is not ordered)
			hh := tail + uint64(rng.Intn(cnt+2))
			if rng.Chance(20) && tail > 1 {
				hh = tail - 1
			}
			h.Events = append(h.Events, c14Event{Kind: "delete", H: hh, Inner: rng.Chance(30)})
		case x < 81:
			if cnt >= 2 {
				h.Events = append(h.Events, c14Event{Kind: "drop"})
				tail++
				cnt--
			}
		case x < 90:
			h.Events = append(h.Events, c14Event{Kind: "restart"})
		case x < 96:
			h.Events = append(h.Events, c14Event{Kind: "crash"})
		default:
			h.Events = append(h.Events, c14Event{Kind: "reset"})
		}
	}
	if rng.Chance(60) {
		h.Events = append(h.Events, c14Event{Kind: "cycle"})
	}
	return h
}

// c14Spin is the history of the defect confirmed in the design round: batch limit 4, every Prune call fails.
func c14Spin() c14Hist {
	h := c14Hist{Window: 5, BlockTime: 1, MaxH: 4, Tail: 1, DefFail: true, Monotone: true}
	for i := 0; i < 12; i++ {
		h.Times = append(h.Times, int64(i))
	}
	h.Events = []c14Event{{Kind: "cycle"}, {Kind: "cycle"}}
	return h
}

func TestVerifC14(t *testing.T) {
	r := zv.Start(t, "C14")
	defer r.Finish()
	g := r.Group("pruner", c14Header, "case", "mismatches")

	record := func(h c14Hist) {
		x := c14Run(r, h)
		if x.bad || len(x.obs) == 0 {
			r.Count("history", "abandoned")
			return
		}
		hh := h
		hh.Events = h.Events[:len(x.obs)]
		key := ""
		ncalls, restarts := 0, 0
		for i, o := range x.obs {
			ncalls += len(o.Calls)
			r.Count("event", hh.Events[i].Kind)
			if k := hh.Events[i].Kind; k == "restart" || k == "crash" {
				restarts++
			}
		}
		if ncalls > 0 && (x.hadFailure || restarts > 0) {
			key = "pruned-with-failure-or-restart"
		}
		r.Count("history", map[bool]string{true: "monotone", false: "non-monotone"}[h.Monotone])
		r.Count("prune_calls", c14Bucket(ncalls))
		r.Count("batch_limit", fmt.Sprint(h.MaxH))
		g.Case(c14Term(hh, x.obs), map[string]any{"history": hh, "observed": x.obs}, key)
	}

	var rep c14Hist
	if r.ReplayInput(&rep) {
		record(rep)
		return
	}
	record(c14Spin())
	rng := r.Rand()
	for i := 0; i < r.N(2000, 60000); i++ {
		record(c14Gen(rng.Fork(uint64(i)), r))
	}
}

func c14Bucket(n int) string {
	switch {
	case n == 0:
		return "0"
	case n < 10:
		return "1-9"
	case n < 50:
		return "10-49"
	case n < 200:
		return "50-199"
	}
	return "200+"
}

func sortedKeys(m map[uint64]struct{}) []uint64 {
	out := make([]uint64, 0, len(m))
	for k := range m {
		out = append(out, k)
	}
	sort.Slice(out, func(i, j int) bool { return out[i] < out[j] })
	return out
}

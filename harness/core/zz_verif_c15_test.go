//go:build verif

package core

// C15 correspondence + oracle harness (see /verif/DESIGN.md, C15).
//
// A history is a list of operations on one bridge node (one real store on a temp dir):
//   core   - a new-height announcement by one of 1..n consensus endpoints, handled by the REAL Listener
//            (handleNewBlockEvent) whose fetcher is the REAL MultiSource over scripted fake endpoints;
//   avail  - the REAL full.ShareAvailability.SharesAvailable on the same store with a scripted getter;
//   xchg   - the REAL Exchange.GetByHeight over the REAL BlockFetcher with a scripted gRPC BlockAPI client;
//   xhash  - the REAL Exchange.Get (header BY HASH) over the same scripted client (BlockByHash + Commit + ValidatorSet):
//            the endpoint serves the requested block, or a block whose hash is NOT the requested one (another block of
//            the history, or a block of that height with another square), or fails.
// Blocks are real signed blocks (headertest keys) with random transactions / real PayForBlobs transactions and
// timestamps a minute old, far outside the availability window, or at the window's EDGE (30 minutes inside
// availability.StorageWindow - every ingest path must still treat them as inside); squares are built by the real
// da.ConstructEDS.
// Part of the histories runs through Listener.Start and the real subscription fan-in instead of direct calls.
//
// L2: the history with every scripted outcome and the observed result codes, final store (height, DAH, has Q4),
//     header broadcasts and hash notifications is written as a Coq case for CN.Core.Listener.mismatches.
// L3: on the implementation: the square readable under a height has the DAH of the header published / given for it
//     (and, for a consistent block, hashes to the block's data hash and the published header validates); a failed
//     operation leaves the store unchanged and returns an error; an obtained in-window block is stored and, for
//     consensus ingests, published exactly once; pruned nodes store nothing outside the window, archival nodes no Q4.

import (
	"bytes"
	"context"
	"errors"
	"fmt"
	"os"
	"path/filepath"
	"reflect"
	"sort"
	"strconv"
	"strings"
	"sync"
	"testing"
	"time"

	"github.com/cometbft/cometbft/crypto/merkle"
	tmproto "github.com/cometbft/cometbft/proto/tendermint/types"
	coregrpc "github.com/cometbft/cometbft/rpc/grpc"
	"github.com/cometbft/cometbft/types"
	pubsub "github.com/libp2p/go-libp2p-pubsub"
	"google.golang.org/grpc"

	"github.com/celestiaorg/celestia-app/v9/pkg/da"
	"github.com/celestiaorg/rsmt2d"

	"github.com/celestiaorg/celestia-node/header"
	"github.com/celestiaorg/celestia-node/header/headertest"
	"github.com/celestiaorg/celestia-node/nodebuilder/p2p"
	"github.com/celestiaorg/celestia-node/share"
	"github.com/celestiaorg/celestia-node/share/availability"
	"github.com/celestiaorg/celestia-node/share/availability/full"
	"github.com/celestiaorg/celestia-node/share/eds/byzantine"
	"github.com/celestiaorg/celestia-node/share/eds/edstest"
	"github.com/celestiaorg/celestia-node/share/shwap"
	"github.com/celestiaorg/celestia-node/share/shwap/p2p/shrex/shrexsub"
	"github.com/celestiaorg/celestia-node/store"
	zv "github.com/celestiaorg/celestia-node/zzverif"
)

const c15Header = `From Coq Require Import List NArith Bool.
From CN Require Import Core.Listener.
Import ListNotations.
Open Scope N_scope.
`

const c15Chain = "c15-chain"

// ---------------------------------------------------------------- history description (replayable JSON)

type c15Op struct {
	Kind string `json:"kind"` // core | avail | xchg | xhash
	// the block / header concerned
	Height      int64  `json:"height"`       // announced / requested height
	ServeHeight int64  `json:"serve_height"` // header height of the served block (== Height for well-behaved sources)
	TxSet       int    `json:"txset"`        // index into the pool of transaction sets (0 = no transactions)
	InWindow    bool   `json:"in_window"`    // what the node treats as inside its window (a disabled window: everything)
	Old         bool   `json:"old"`          // block time far outside the default storage window
	Edge        bool   `json:"edge"`         // block time in the last hour of the storage window (still inside: in_window is true)
	HashOK      bool   `json:"hash_ok"`      // xhash: the served block is the one whose hash was requested
	Consistent  bool   `json:"consistent"`   // header.DataHash commits to the square
	ChainOK     bool   `json:"chain_ok"`
	AppVersion  uint64 `json:"app_version"` // 0 makes da.ConstructEDS fail
	// scripted outcomes
	Src       int    `json:"src"`
	FetchOK   bool   `json:"fetch_ok"`
	Sync      string `json:"sync"` // synced | syncing | fail
	StoreFail bool   `json:"store_fail"`
	Getter    string `json:"getter"` // square | notfound | deadline | canceled | byzantine | byz-deadline | byz-notfound | other
	// observed
	Code int `json:"code"`
}

type c15History struct {
	Archival bool    `json:"archival"`
	Sources  int     `json:"sources"`
	ViaStart bool    `json:"via_start"`       // events go through Listener.Start / SubscribeNewBlockEvent instead of direct calls
	WinOff   bool    `json:"window_disabled"` // core components run with WithAvailabilityWindow(0): the window is disabled, every block counts as inside
	Ops      []c15Op `json:"ops"`
}

// ---------------------------------------------------------------- block material

type c15TxSet struct {
	txs   types.Txs
	eds   *rsmt2d.ExtendedDataSquare
	roots *share.AxisRoots
	empty bool
}

type c15World struct {
	t      *testing.T
	pool   []*c15TxSet
	valSet *types.ValidatorSet
	vals   []types.PrivValidator
	dahIDs map[string]int // DAH hash / data hash bytes -> atom
}

func (w *c15World) atom(b []byte) uint64 {
	if id, ok := w.dahIDs[string(b)]; ok {
		return uint64(id)
	}
	id := len(w.dahIDs) + 1
	w.dahIDs[string(b)] = id
	return uint64(id)
}

func c15NewWorld(t *testing.T, rng *zv.Rand, nSets int) *c15World {
	w := &c15World{t: t, dahIDs: map[string]int{}}
	w.valSet, w.vals = headertest.RandValidatorSet(2, 10)
	add := func(txs types.Txs) {
		sq, err := da.ConstructEDS(txs.ToSliceOfBytes(), 9, -1)
		if err != nil {
			t.Fatalf("harness broken: square construction: %v", err)
		}
		roots, err := share.NewAxisRoots(sq)
		if err != nil {
			t.Fatal(err)
		}
		w.pool = append(w.pool, &c15TxSet{txs: txs, eds: sq, roots: roots, empty: share.DataHash(roots.Hash()).IsEmptyEDS()})
	}
	add(types.Txs{}) // 0: the empty block
	for i := 1; i < nSets; i++ {
		if i%3 == 0 { // real PayForBlobs transactions
			_, _, _, _, txs, _, _ := edstest.GenerateTestBlock(t, 64+rng.Intn(400), 1+rng.Intn(2))
			add(txs)
			continue
		}
		var txs types.Txs
		for k := 1 + rng.Intn(3); k > 0; k-- {
			txs = append(txs, types.Tx(rng.Bytes(20+rng.Intn(300))))
		}
		add(txs)
	}
	return w
}

// c15EdgeMargin: how far inside the storage window an "edge" block lies. The block time is taken when the block is
// built, i.e. within the operation that uses it, so the margin only has to cover one operation (milliseconds).
const c15EdgeMargin = 30 * time.Minute

// c15BlockTime: three classes of block time, all relative to the window constant read from the code under test:
// a minute old; far outside (window + 48h); at the edge = inside availability.StorageWindow by c15EdgeMargin.
func c15BlockTime(old, edge bool) time.Time {
	switch {
	case old:
		return time.Now().Add(-availability.StorageWindow - 48*time.Hour).UTC()
	case edge:
		return time.Now().Add(-availability.StorageWindow + c15EdgeMargin).UTC()
	}
	return time.Now().Add(-time.Minute).UTC()
}

// signedBlock builds the real signed block an endpoint serves for op.
func (w *c15World) signedBlock(op *c15Op) *SignedBlock {
	ts := w.pool[op.TxSet]
	h := headertest.RandRawHeader(w.t)
	h.Height = op.ServeHeight
	h.Time = c15BlockTime(op.Old, op.Edge)
	h.ChainID = c15Chain
	if !op.ChainOK {
		h.ChainID = "some-other-chain"
	}
	h.Version.App = op.AppVersion
	h.ValidatorsHash = w.valSet.Hash()
	h.NextValidatorsHash = w.valSet.Hash()
	h.DataHash = ts.roots.Hash()
	if !op.Consistent {
		h.DataHash = merkle.HashFromByteSlices([][]byte{[]byte("not the square"), []byte(strconv.FormatInt(op.Height, 10))})
	}
	lastCommit := &types.Commit{}
	h.LastCommitHash = lastCommit.Hash()
	h.EvidenceHash = (&types.EvidenceData{}).Hash()
	bid := headertest.RandBlockID(w.t)
	bid.Hash = h.Hash()
	voteSet := types.NewVoteSet(h.ChainID, h.Height, 0, tmproto.PrecommitType, w.valSet)
	commit, err := headertest.MakeCommit(bid, h.Height, 0, voteSet, w.vals, h.Time)
	if err != nil {
		w.t.Fatal(err)
	}
	data := types.NewData(ts.txs, uint64(ts.eds.Width()/2), h.DataHash)
	return &SignedBlock{Header: h, Commit: commit, Data: &data, ValidatorSet: w.valSet}
}

// ---------------------------------------------------------------- scripted consensus endpoint (leaf of the real MultiSource)

type c15Source struct {
	mu      sync.Mutex
	w       *c15World
	cur     *c15Op // the operation being handled (direct mode) ...
	byH     map[int64]*c15Op
	ch      chan BlockEvent
	markers chan int64
}

func (s *c15Source) script(h int64) *c15Op {
	s.mu.Lock()
	defer s.mu.Unlock()
	if s.cur != nil && s.cur.Height == h {
		return s.cur
	}
	return s.byH[h]
}

func (s *c15Source) SubscribeNewBlockEvent(context.Context) (chan BlockEvent, error) {
	return s.ch, nil
}

func (s *c15Source) GetSignedBlock(_ context.Context, height int64) (*SignedBlock, error) {
	if height >= c15MarkerBase {
		s.markers <- height
		return nil, errors.New("marker")
	}
	op := s.script(height)
	if op == nil || !op.FetchOK {
		return nil, errors.New("scripted fetch failure")
	}
	return s.w.signedBlock(op), nil
}

func (s *c15Source) ChainID(context.Context) (string, error) { return c15Chain, nil }

func (s *c15Source) IsSyncing(context.Context) (bool, error) {
	s.mu.Lock()
	op := s.cur
	s.mu.Unlock()
	if op == nil {
		return false, errors.New("no script")
	}
	switch op.Sync {
	case "fail":
		return false, errors.New("scripted status failure")
	case "syncing":
		return true, nil
	}
	return false, nil
}

const c15MarkerBase = int64(1) << 40

// ---------------------------------------------------------------- capturing broadcasters

type c15Pub struct {
	Height   uint64
	DAH      []byte
	DataHash []byte
	Local    bool
	Valid    bool
}

type c15Bcast struct {
	mu   sync.Mutex
	pubs []c15Pub
}

func (b *c15Bcast) Broadcast(_ context.Context, eh *header.ExtendedHeader, opts ...pubsub.PubOpt) error {
	po := &pubsub.PublishOptions{}
	for _, o := range opts {
		_ = o(po)
	}
	local := reflect.ValueOf(po).Elem().FieldByName("local").Bool()
	b.mu.Lock()
	defer b.mu.Unlock()
	b.pubs = append(b.pubs, c15Pub{eh.Height(), eh.DAH.Hash(), append([]byte{}, eh.DataHash...), local, eh.Validate() == nil})
	return nil
}

// ---------------------------------------------------------------- scripted getter for the availability path

type c15Getter struct {
	shwap.Getter
	w   *c15World
	cur *c15Op
}

func (g *c15Getter) GetEDS(ctx context.Context, _ *header.ExtendedHeader) (*rsmt2d.ExtendedDataSquare, error) {
	byz := &byzantine.ErrByzantine{}
	switch g.cur.Getter {
	case "square":
		return g.w.pool[g.cur.TxSet].eds, nil
	case "notfound":
		return nil, fmt.Errorf("getter: %w", shwap.ErrNotFound)
	case "deadline":
		return nil, fmt.Errorf("getter: %w", context.DeadlineExceeded)
	case "canceled":
		return nil, fmt.Errorf("getter: %w", context.Canceled)
	case "byzantine":
		return nil, fmt.Errorf("getter: %w", byz)
	case "byz-deadline":
		return nil, errors.Join(context.DeadlineExceeded, byz)
	case "byz-notfound":
		return nil, errors.Join(shwap.ErrNotFound, byz)
	}
	return nil, errors.New("getter: something else")
}

// ---------------------------------------------------------------- scripted gRPC BlockAPI client for the exchange path

type c15Client struct {
	coregrpc.BlockAPIClient
	w   *c15World
	cur *c15Op
	sb  *SignedBlock // xhash: the block served by BlockByHash (and whose commit / validator set are served after it)
}

type c15HashStream struct {
	grpc.ClientStream
	resps []*coregrpc.BlockByHashResponse
}

func (s *c15HashStream) Recv() (*coregrpc.BlockByHashResponse, error) {
	if len(s.resps) == 0 {
		return nil, errors.New("stream exhausted")
	}
	r := s.resps[0]
	s.resps = s.resps[1:]
	return r, nil
}

// BlockByHash serves the scripted block whatever hash is asked for (the script decides whether that is the block
// with the requested hash), or fails.
func (c *c15Client) BlockByHash(_ context.Context, _ *coregrpc.BlockByHashRequest, _ ...grpc.CallOption) (coregrpc.BlockAPI_BlockByHashClient, error) {
	if !c.cur.FetchOK || c.sb == nil {
		return nil, errors.New("scripted fetch failure")
	}
	blk := &types.Block{Header: *c.sb.Header, Data: *c.sb.Data, LastCommit: &types.Commit{}}
	ps, err := blk.MakePartSet(types.BlockPartSizeBytes)
	if err != nil {
		return nil, err
	}
	st := &c15HashStream{}
	for i := 0; i < int(ps.Total()); i++ {
		pp, err := ps.GetPart(i).ToProto()
		if err != nil {
			return nil, err
		}
		st.resps = append(st.resps, &coregrpc.BlockByHashResponse{BlockPart: pp, IsLast: i == int(ps.Total())-1})
	}
	return st, nil
}

func (c *c15Client) Commit(_ context.Context, req *coregrpc.CommitRequest, _ ...grpc.CallOption) (*coregrpc.CommitResponse, error) {
	if c.sb == nil || c.cur.Sync == "fail" || req.Height != c.sb.Header.Height {
		return nil, errors.New("scripted commit failure")
	}
	return &coregrpc.CommitResponse{Commit: c.sb.Commit.ToProto()}, nil
}

func (c *c15Client) ValidatorSet(_ context.Context, req *coregrpc.ValidatorSetRequest, _ ...grpc.CallOption) (*coregrpc.ValidatorSetResponse, error) {
	if c.sb == nil || req.Height != c.sb.Header.Height {
		return nil, errors.New("scripted validator set failure")
	}
	vs, err := c.sb.ValidatorSet.ToProto()
	if err != nil {
		return nil, err
	}
	return &coregrpc.ValidatorSetResponse{ValidatorSet: vs, Height: req.Height}, nil
}

type c15Stream struct {
	grpc.ClientStream
	resps []*coregrpc.BlockByHeightResponse
}

func (s *c15Stream) Recv() (*coregrpc.BlockByHeightResponse, error) {
	if len(s.resps) == 0 {
		return nil, errors.New("stream exhausted")
	}
	r := s.resps[0]
	s.resps = s.resps[1:]
	return r, nil
}

func (c *c15Client) BlockByHeight(_ context.Context, _ *coregrpc.BlockByHeightRequest, _ ...grpc.CallOption) (coregrpc.BlockAPI_BlockByHeightClient, error) {
	if !c.cur.FetchOK {
		return nil, errors.New("scripted fetch failure")
	}
	sb := c.w.signedBlock(c.cur)
	blk := &types.Block{Header: *sb.Header, Data: *sb.Data, LastCommit: &types.Commit{}}
	ps, err := blk.MakePartSet(types.BlockPartSizeBytes)
	if err != nil {
		return nil, err
	}
	vs, err := sb.ValidatorSet.ToProto()
	if err != nil {
		return nil, err
	}
	st := &c15Stream{}
	for i := 0; i < int(ps.Total()); i++ {
		p := ps.GetPart(i)
		pp, err := p.ToProto()
		if err != nil {
			return nil, err
		}
		r := &coregrpc.BlockByHeightResponse{BlockPart: pp, IsLast: i == int(ps.Total())-1}
		if i == 0 {
			r.Commit, r.ValidatorSet = sb.Commit.ToProto(), vs
		}
		st.resps = append(st.resps, r)
	}
	return st, nil
}

// ---------------------------------------------------------------- one node

type c15Node struct {
	w         *c15World
	dir       string
	st        *store.Store
	cl        *Listener
	ms        *MultiSource
	srcs      []*c15Source
	bc        *c15Bcast
	hashes    [][2]uint64 // (height, data hash atom)
	fa        *full.ShareAvailability
	getter    *c15Getter
	ex        *Exchange
	client    *c15Client
	archival  bool
	hashAsked []byte // the hash of the last successful by-hash request
}

func c15NewNode(t *testing.T, w *c15World, archival bool, nSrc int, winOff bool) *c15Node {
	n := &c15Node{w: w, archival: archival, bc: &c15Bcast{}}
	n.dir = t.TempDir()
	st, err := store.NewStore(store.DefaultParameters(), n.dir)
	if err != nil {
		t.Fatal(err)
	}
	n.st = st
	var tagged []taggedSource
	for i := 0; i < nSrc; i++ {
		s := &c15Source{w: w, byH: map[int64]*c15Op{}, ch: make(chan BlockEvent), markers: make(chan int64, 4)}
		n.srcs = append(n.srcs, s)
		tagged = append(tagged, taggedSource{fetcher: s, addr: "src-" + strconv.Itoa(i)})
	}
	n.ms = newMultiSource(tagged...)
	opts := []Option{WithChainID(p2p.Network(c15Chain)), WithAvailabilityWindow(availability.StorageWindow)}
	if winOff {
		opts = []Option{WithChainID(p2p.Network(c15Chain)), WithAvailabilityWindow(0)}
	}
	fopts := []full.Option{}
	if archival {
		opts = append(opts, WithArchivalMode())
		fopts = append(fopts, full.WithArchivalMode())
	}
	hashB := func(_ context.Context, nt shrexsub.Notification) error {
		n.hashes = append(n.hashes, [2]uint64{nt.Height, w.atom(nt.DataHash)})
		return nil
	}
	n.cl, err = NewListener(n.bc, n.ms, hashB, header.MakeExtendedHeader, st, time.Hour, opts...)
	if err != nil {
		t.Fatal(err)
	}
	n.getter = &c15Getter{w: w}
	n.fa = full.NewShareAvailability(st, n.getter, fopts...)
	n.client = &c15Client{w: w}
	n.ex, err = NewExchange(&BlockFetcher{client: n.client, addr: "xchg"}, st, header.MakeExtendedHeader, opts...)
	if err != nil {
		t.Fatal(err)
	}
	return n
}

func (n *c15Node) odsPath(ts *c15TxSet) string {
	return filepath.Join(n.dir, "blocks", share.DataHash(ts.roots.Hash()).String()+".ods")
}

// effective reports whether a scripted store failure can bite: not for the empty square (only a link is made) and not
// when the square's file is already on disk (the write is skipped as "exists"). The op is normalised accordingly.
func (n *c15Node) normalise(op *c15Op) {
	if !op.StoreFail {
		return
	}
	ts := n.w.pool[op.TxSet]
	if _, err := os.Lstat(n.odsPath(ts)); ts.empty || err == nil {
		op.StoreFail = false
	}
}

// blockStore makes the next write of this square fail: a non-empty directory sits where the ODS file goes
// (creation reports "exists", recovery cannot remove it). Returns the undo.
func (n *c15Node) blockStore(ts *c15TxSet) func() {
	p := n.odsPath(ts)
	if _, err := os.Lstat(p); err == nil {
		return func() {} // the square is already on disk (same data under another height)
	}
	_ = os.MkdirAll(filepath.Join(p, "x"), 0o755)
	return func() { _ = os.RemoveAll(p) }
}

type c15Stored struct {
	Height uint64
	DAH    []byte
	Q4     bool
}

// snapshot reads the store back through its public API: heights of interest -> (DAH of the readable square, has Q4).
func (n *c15Node) snapshot(heights []uint64) []c15Stored {
	ctx := context.Background()
	var out []c15Stored
	for _, h := range heights {
		has, err := n.st.HasByHeight(ctx, h)
		if err != nil || !has {
			continue
		}
		acc, err := n.st.GetByHeight(ctx, h)
		if err != nil {
			out = append(out, c15Stored{Height: h})
			continue
		}
		roots, err := acc.AxisRoots(ctx)
		_ = acc.Close()
		if err != nil {
			out = append(out, c15Stored{Height: h})
			continue
		}
		q4, _ := n.st.HasQ4ByHash(ctx, roots.Hash())
		out = append(out, c15Stored{h, roots.Hash(), q4})
	}
	return out
}

// ---------------------------------------------------------------- running one history

const (
	c15StoreErr   = 0
	c15Duplicate  = 1
	c15FetchErr   = 2
	c15Historic   = 3
	c15SyncErr    = 4
	c15Panic      = 5
	c15ProcessErr = 6
	c15Processed  = 7
	c15Dead       = 8
	c15XErr       = 20
	c15XPanic     = 21
	c15XHeader    = 22
	c15AOk        = 30
)

func c15AvailCode(err error) int {
	var byz *byzantine.ErrByzantine
	switch {
	case err == nil:
		return 30
	case errors.Is(err, availability.ErrOutsideSamplingWindow):
		return 31
	case errors.Is(err, share.ErrNotAvailable):
		return 32
	case errors.Is(err, context.Canceled):
		return 33
	case errors.As(err, &byz):
		return 34
	case strings.Contains(err.Error(), "store eds") || strings.Contains(err.Error(), "put empty EDS"):
		return 36
	}
	return 35
}

// classify derives the listener's outcome for one event from what the scripted endpoint saw and the visible effects
// (the method itself returns nil for several different outcomes).
func (n *c15Node) runCore(op *c15Op, crashed *bool) {
	if *crashed {
		op.Code = c15Dead
		return
	}
	ctx := context.Background()
	src := n.srcs[op.Src]
	hadBefore, _ := n.st.HasByHeight(ctx, uint64(op.Height))
	pubsBefore := len(n.bc.pubs)
	src.mu.Lock()
	src.cur = op
	src.mu.Unlock()
	n.normalise(op)
	undo := func() {}
	if op.StoreFail {
		undo = n.blockStore(n.w.pool[op.TxSet])
	}
	var err error
	p := zv.Recover(func() {
		err = n.cl.handleNewBlockEvent(ctx, BlockEvent{Height: op.Height, addr: "src-" + strconv.Itoa(op.Src)})
	})
	undo()
	src.mu.Lock()
	src.cur = nil
	src.mu.Unlock()
	switch {
	case p != "":
		op.Code = c15Panic
		*crashed = true
	case hadBefore:
		op.Code = c15Duplicate
	case err != nil && strings.Contains(err.Error(), "fetching signed block"):
		op.Code = c15FetchErr
	case err != nil && strings.Contains(err.Error(), "getting sync state"):
		op.Code = c15SyncErr
	case err != nil:
		op.Code = c15ProcessErr
	case len(n.bc.pubs) > pubsBefore:
		op.Code = c15Processed
	default:
		op.Code = c15Historic
	}
}

func (n *c15Node) extHeader(op *c15Op) *header.ExtendedHeader {
	sb := n.w.signedBlock(op)
	eh, err := header.MakeExtendedHeader(sb.Header, sb.Commit, sb.ValidatorSet, n.w.pool[op.TxSet].eds)
	if err != nil {
		n.w.t.Fatal(err)
	}
	return eh
}

func (n *c15Node) runAvail(op *c15Op) error {
	n.getter.cur = op
	n.normalise(op)
	undo := func() {}
	if op.StoreFail {
		undo = n.blockStore(n.w.pool[op.TxSet])
	}
	var err error
	if p := zv.Recover(func() { err = n.fa.SharesAvailable(context.Background(), n.extHeader(op)) }); p != "" {
		err = errors.New("panic: " + p)
	}
	undo()
	op.Code = c15AvailCode(err)
	return err
}

func (n *c15Node) runExchange(op *c15Op, crashed *bool) (eh *header.ExtendedHeader) {
	if *crashed {
		op.Code = c15XErr
		return nil
	}
	n.client.cur = op
	n.normalise(op)
	undo := func() {}
	if op.StoreFail {
		undo = n.blockStore(n.w.pool[op.TxSet])
	}
	var err error
	p := zv.Recover(func() { eh, err = n.ex.GetByHeight(context.Background(), uint64(op.Height)) })
	undo()
	switch {
	case p != "":
		op.Code = c15XPanic
		*crashed = true
		return nil
	case err != nil:
		op.Code = c15XErr
		return nil
	}
	op.Code = c15XHeader
	return eh
}

// runHash drives the real Exchange.Get(ctx, hash). The served block is built first; the requested hash is its hash
// (hash_ok) or the hash of some other block of the requested height.
func (n *c15Node) runHash(op *c15Op, crashed *bool) (eh *header.ExtendedHeader) {
	if *crashed {
		op.Code = c15XErr
		return nil
	}
	n.client.cur = op
	n.client.sb = n.w.signedBlock(op)
	defer func() { n.client.sb = nil }()
	want := n.client.sb.Commit.BlockID.Hash.Bytes()
	if !op.HashOK {
		other := *op
		other.TxSet, other.Consistent, other.ChainOK, other.AppVersion = 0, true, true, 9
		want = n.w.signedBlock(&other).Commit.BlockID.Hash.Bytes()
	}
	n.normalise(op)
	undo := func() {}
	if op.StoreFail {
		undo = n.blockStore(n.w.pool[op.TxSet])
	}
	var err error
	p := zv.Recover(func() { eh, err = n.ex.Get(context.Background(), want) })
	undo()
	switch {
	case p != "":
		op.Code = c15XPanic
		*crashed = true
		return nil
	case err != nil:
		op.Code = c15XErr
		return nil
	}
	op.Code = c15XHeader
	n.hashAsked = want
	return eh
}

// ---------------------------------------------------------------- Coq emission

func c15N(x uint64) string { return strconv.FormatUint(x, 10) }

func (w *c15World) blockTerm(op *c15Op) string {
	ts := w.pool[op.TxSet]
	dh := ts.roots.Hash()
	if !op.Consistent {
		dh = merkle.HashFromByteSlices([][]byte{[]byte("not the square"), []byte(strconv.FormatInt(op.Height, 10))})
	}
	return "(mkblock " + strings.Join([]string{c15N(uint64(op.ServeHeight)), zv.Bool(op.ChainOK), zv.Bool(op.AppVersion != 0), c15N(w.atom(ts.roots.Hash())),
		c15N(w.atom(dh)), zv.Bool(op.InWindow), zv.Bool(ts.empty)}, " ") + ")"
}

func (w *c15World) opTerm(op *c15Op) string {
	switch op.Kind {
	case "core":
		fetch := "None"
		if op.FetchOK {
			fetch = "(Some " + w.blockTerm(op) + ")"
		}
		sync := map[string]string{"fail": "None", "syncing": "(Some true)", "synced": "(Some false)"}[op.Sync]
		return "(OpCore (mkev " + c15N(uint64(op.Height)) + " " + c15N(uint64(op.Src)) + " false " + fetch + " " + sync + " " + zv.Bool(!op.StoreFail) + "))"
	case "xchg":
		fetch := "None"
		if op.FetchOK {
			fetch = "(Some " + w.blockTerm(op) + ")"
		}
		return "(OpExchange (mkxreq " + fetch + " " + zv.Bool(!op.StoreFail) + "))"
	case "xhash":
		fetch := "None"
		if op.FetchOK {
			fetch = "(Some " + w.blockTerm(op) + ")"
		}
		return "(OpHash (mkhreq " + fetch + " " + zv.Bool(op.Sync != "fail") + " " + zv.Bool(op.HashOK) + " " + zv.Bool(!op.StoreFail) + "))"
	}
	g := map[string]string{"square": "GSquare", "notfound": "GNotFound", "deadline": "GDeadline", "canceled": "GCanceled", "byzantine": "GByzantine",
		"byz-deadline": "GByzDeadline", "byz-notfound": "GByzNotFound", "other": "GOther"}[op.Getter]
	ts := w.pool[op.TxSet]
	return "(OpAvail (mkareq " + strings.Join([]string{c15N(uint64(op.Height)), c15N(w.atom(ts.roots.Hash())), zv.Bool(op.InWindow), zv.Bool(ts.empty), g, zv.Bool(!op.StoreFail)}, " ") + "))"
}

// ---------------------------------------------------------------- generation

func c15GenHistory(rng *zv.Rand, nSets int, viaStart bool) *c15History {
	h := &c15History{Archival: rng.Chance(40), Sources: 1 + rng.Intn(4), ViaStart: viaStart, WinOff: rng.Chance(15)}
	nHeights := 3 + rng.Intn(6)
	base := int64(1 + rng.Intn(1000))
	type hb struct {
		txset      int
		inWindow   bool
		edge       bool // inside the window, in its last hour
		consistent bool
		app        uint64
	}
	blocks := make([]hb, nHeights)
	perm := make([]int, nSets-1) // every height its own square (the store keys files by data hash), except empty blocks
	for i := range perm {
		perm[i] = i + 1
	}
	for i := len(perm) - 1; i > 0; i-- {
		j := rng.Intn(i + 1)
		perm[i], perm[j] = perm[j], perm[i]
	}
	for i := range blocks {
		blocks[i] = hb{txset: perm[i%len(perm)], inWindow: !rng.Chance(25), consistent: !rng.Chance(8), app: 9}
		if rng.Chance(15) {
			blocks[i].txset = 0
		}
		if rng.Chance(5) {
			blocks[i].app = 0
		}
		if blocks[i].inWindow && rng.Chance(30) {
			blocks[i].edge = true
		}
	}
	// per-source announcement sequences: gaps, duplicates, a lagging source replaying old heights; merged at random
	type ann struct {
		src int
		idx int
	}
	var seqs [][]ann
	for s := 0; s < h.Sources; s++ {
		var q []ann
		start := 0
		if s > 0 && rng.Chance(40) {
			start = rng.Intn(nHeights)
		}
		for i := start; i < nHeights; i++ {
			if rng.Chance(15) {
				continue // gap
			}
			q = append(q, ann{s, i})
			if rng.Chance(12) {
				q = append(q, ann{s, i}) // immediate duplicate
			}
		}
		if rng.Chance(30) { // replays old heights (blocksync from scratch)
			for i := 0; i < nHeights; i++ {
				if rng.Chance(50) {
					q = append(q, ann{s, i})
				}
			}
		}
		if rng.Chance(20) { // out of order
			for i := len(q) - 1; i > 0; i-- {
				j := rng.Intn(i + 1)
				q[i], q[j] = q[j], q[i]
			}
		}
		seqs = append(seqs, q)
	}
	pos := make([]int, len(seqs))
	for {
		var live []int
		for s := range seqs {
			if pos[s] < len(seqs[s]) {
				live = append(live, s)
			}
		}
		if len(live) == 0 {
			break
		}
		s := live[rng.Intn(len(live))]
		a := seqs[s][pos[s]]
		pos[s]++
		b := blocks[a.idx]
		op := c15Op{Kind: "core", Height: base + int64(a.idx), ServeHeight: base + int64(a.idx), TxSet: b.txset, InWindow: b.inWindow || h.WinOff, Old: !b.inWindow, Edge: b.edge,
			Consistent: b.consistent, ChainOK: true, AppVersion: b.app, Src: a.src, FetchOK: !rng.Chance(15), Sync: "synced"}
		switch {
		case rng.Chance(10):
			op.Sync = "fail"
		case rng.Chance(25):
			op.Sync = "syncing"
		}
		if rng.Chance(10) && b.txset != 0 {
			op.StoreFail = true
		}
		if !viaStart && rng.Chance(1) {
			op.ChainOK = false
		}
		if !viaStart && rng.Chance(2) && a.idx > 0 {
			op.StoreFail = false
			op.ServeHeight-- // the endpoint answers with the previous block
			op.TxSet, op.InWindow, op.Consistent, op.AppVersion = blocks[a.idx-1].txset, blocks[a.idx-1].inWindow || h.WinOff, blocks[a.idx-1].consistent, blocks[a.idx-1].app
			op.Old, op.Edge = !blocks[a.idx-1].inWindow, blocks[a.idx-1].edge
		}
		h.Ops = append(h.Ops, op)
		// interleave the other ingest paths on the same store
		if !viaStart && rng.Chance(35) {
			i := rng.Intn(nHeights)
			b := blocks[i]
			o := c15Op{Kind: "avail", Height: base + int64(i), ServeHeight: base + int64(i), TxSet: b.txset, InWindow: b.inWindow, Old: !b.inWindow, Edge: b.edge, Consistent: true, ChainOK: true, AppVersion: 9,
				Getter: []string{"square", "square", "square", "notfound", "deadline", "canceled", "byzantine", "byz-deadline", "byz-notfound", "other"}[rng.Intn(10)]}
			if rng.Chance(12) && b.txset != 0 {
				o.StoreFail = true
			}
			// With the core window disabled an old block is inside for the listener / exchange (stored with the parity
			// quadrant) and outside for the availability path, whose window is fixed (an archival node stores it without).
			// Both views of one height on one store are outside the model (a height is stored once, one way): the
			// availability path is not asked for old blocks in such histories.
			if !(h.WinOff && !b.inWindow) {
				h.Ops = append(h.Ops, o)
			}
		}
		if !viaStart && rng.Chance(12) {
			i := rng.Intn(nHeights)
			b := blocks[i]
			o := c15Op{Kind: "xchg", Height: base + int64(i), ServeHeight: base + int64(i), TxSet: b.txset, InWindow: b.inWindow || h.WinOff, Old: !b.inWindow, Edge: b.edge, Consistent: b.consistent, ChainOK: !rng.Chance(2), AppVersion: b.app,
				FetchOK: !rng.Chance(15)}
			if rng.Chance(10) && b.txset != 0 {
				o.StoreFail = true
			}
			h.Ops = append(h.Ops, o)
		}
		if !viaStart && rng.Chance(14) { // header request by hash
			i := rng.Intn(nHeights)
			b := blocks[i]
			o := c15Op{Kind: "xhash", Height: base + int64(i), ServeHeight: base + int64(i), TxSet: b.txset, InWindow: b.inWindow || h.WinOff, Old: !b.inWindow, Edge: b.edge, Consistent: b.consistent,
				ChainOK: !rng.Chance(2), AppVersion: b.app, FetchOK: !rng.Chance(12), HashOK: !rng.Chance(40), Sync: "synced"}
			if rng.Chance(8) {
				o.Sync = "fail" // commit / validator set of the served height not served
			}
			if !o.HashOK && rng.Chance(30) { // the mismatching block carries the square of another height
				o.TxSet = blocks[rng.Intn(nHeights)].txset
			}
			if rng.Chance(10) && o.TxSet != 0 {
				o.StoreFail = true
			}
			h.Ops = append(h.Ops, o)
		}
	}
	return h
}

// c15EdgeHistory: every ingest path on blocks whose time lies in the last hour of the storage window (and a mismatching
// by-hash answer before the announcement of that height).
func c15EdgeHistory(archival bool) *c15History {
	h := &c15History{Archival: archival, Sources: 2}
	mk := func(kind string, height int64, txset int) c15Op {
		return c15Op{Kind: kind, Height: height, ServeHeight: height, TxSet: txset, InWindow: true, Edge: true, Consistent: true, ChainOK: true, AppVersion: 9,
			FetchOK: true, HashOK: true, Sync: "synced", Getter: "square"}
	}
	miss := mk("xhash", 15, 5)
	miss.HashOK = false
	late := mk("core", 15, 5)
	late.Src = 1
	h.Ops = []c15Op{mk("avail", 11, 1), mk("core", 12, 2), mk("xchg", 13, 3), mk("xhash", 14, 4), miss, late, mk("avail", 12, 2), mk("core", 11, 1), mk("avail", 16, 0)}
	return h
}

// ---------------------------------------------------------------- the check of one history

func c15Run(t *testing.T, r *zv.Run, g *zv.Group, w *c15World, h *c15History) {
	n := c15NewNode(t, w, h.Archival, h.Sources, h.WinOff)
	defer func() { _ = n.st.Stop(context.Background()) }()
	ctx := context.Background()
	crashed := false
	heightSet := map[uint64]bool{}
	for i := range h.Ops {
		heightSet[uint64(h.Ops[i].Height)], heightSet[uint64(h.Ops[i].ServeHeight)] = true, true
	}
	var heights []uint64
	for k := range heightSet {
		heights = append(heights, k)
	}
	sort.Slice(heights, func(i, j int) bool { return heights[i] < heights[j] })

	wellServed := true
	expectDAH := map[uint64][]byte{} // header published / given for the height
	viol := func(sig, desc string) { r.Violation(sig, desc, h) }

	if h.ViaStart {
		// through Listener.Start: the real MultiSource fan-in and listen loop. After every announcement a marker height is
		// pushed through the same endpoint; its fetch being seen means the loop has finished everything before it.
		if err := n.cl.Start(ctx); err != nil {
			t.Fatal(err)
		}
		for i := range h.Ops {
			op := &h.Ops[i]
			src := n.srcs[op.Src]
			hadBefore, _ := n.st.HasByHeight(ctx, uint64(op.Height))
			pubsBefore := len(n.bc.pubs)
			src.mu.Lock()
			src.cur = op
			src.mu.Unlock()
			n.normalise(op)
			undo := func() {}
			if op.StoreFail {
				undo = n.blockStore(w.pool[op.TxSet])
			}
			src.ch <- BlockEvent{Height: op.Height}
			marker := c15MarkerBase + int64(i)
			src.ch <- BlockEvent{Height: marker}
			select {
			case m := <-src.markers:
				if m != marker {
					t.Fatalf("harness broken: marker %d, want %d", m, marker)
				}
			case <-time.After(120 * time.Second):
				t.Fatal("harness broken: listener loop did not reach the marker")
			}
			undo()
			src.mu.Lock()
			src.cur = nil
			src.mu.Unlock()
			hasAfter, _ := n.st.HasByHeight(ctx, uint64(op.Height))
			switch {
			case hadBefore:
				op.Code = c15Duplicate
			case len(n.bc.pubs) > pubsBefore:
				op.Code = c15Processed
			case !op.FetchOK:
				op.Code = c15FetchErr
			case !h.Archival && !op.InWindow:
				op.Code = c15Historic
			case op.Sync == "fail":
				op.Code = c15SyncErr
			case !hasAfter:
				op.Code = c15ProcessErr
			}
		}
		if err := n.cl.Stop(ctx); err != nil {
			t.Fatal(err)
		}
		for _, p := range n.bc.pubs {
			if _, ok := expectDAH[p.Height]; !ok {
				expectDAH[p.Height] = p.DAH
			}
		}
	}

	for i := 0; i < len(h.Ops); i++ {
		if crashed { // the process is gone with the panic: the history ends here
			h.Ops = h.Ops[:i]
			break
		}
		op := &h.Ops[i]
		before := n.snapshot(heights)
		pubsBefore := len(n.bc.pubs)
		if op.ServeHeight != op.Height {
			wellServed = false
		}
		switch op.Kind {
		case "core":
			if !h.ViaStart {
				n.runCore(op, &crashed)
			}
			r.Count("core-outcome", []string{"store-error", "duplicate", "fetch-error", "historic", "sync-error", "panic", "process-error", "processed", "dead"}[op.Code])
		case "avail":
			err := n.runAvail(op)
			r.Count("avail-outcome", op.Getter+"->"+strconv.Itoa(op.Code))
			if err == nil {
				if _, ok := expectDAH[uint64(op.Height)]; !ok {
					expectDAH[uint64(op.Height)] = w.pool[op.TxSet].roots.Hash()
				}
			}
		case "xchg", "xhash":
			var eh *header.ExtendedHeader
			if op.Kind == "xchg" {
				eh = n.runExchange(op, &crashed)
				r.Count("exchange-outcome", strconv.Itoa(op.Code))
			} else {
				eh = n.runHash(op, &crashed)
				r.Count("by-hash-outcome", map[bool]string{true: "requested-block", false: "other-block"}[op.HashOK]+"->"+strconv.Itoa(op.Code))
				if eh != nil && !bytes.Equal(eh.Hash(), n.hashAsked) {
					viol("by-hash:returned-header-with-another-hash", fmt.Sprintf("op %d: Exchange.Get returned a header whose hash is not the requested one", i))
				}
			}
			if eh != nil && (h.Archival || op.InWindow) {
				if _, ok := expectDAH[eh.Height()]; !ok {
					expectDAH[eh.Height()] = eh.DAH.Hash()
				}
				if !bytes.Equal(eh.DAH.Hash(), w.pool[op.TxSet].roots.Hash()) {
					viol("exchange:header-dah-not-the-square", "Exchange returned a header whose DAH is not the DAH of the square built from the block")
				}
			}
		}
		if h.ViaStart {
			continue
		}
		after := n.snapshot(heights)
		failed := (op.Kind == "core" && op.Code != c15Processed) || (op.Kind == "avail" && op.Code != c15AOk) || ((op.Kind == "xchg" || op.Kind == "xhash") && op.Code != c15XHeader)
		if failed && !reflect.DeepEqual(before, after) {
			viol("failed-ingest-left-something:"+op.Kind, fmt.Sprintf("op %d (%s height %d) failed with code %d but changed what the store serves", i, op.Kind, op.Height, op.Code))
		}
		if failed && len(n.bc.pubs) != pubsBefore {
			viol("failed-ingest-published", fmt.Sprintf("op %d (core height %d) did not store the block but published its header", i, op.Height))
		}
		if op.Kind == "core" && op.Code == c15Processed {
			p := n.bc.pubs[len(n.bc.pubs)-1]
			if _, ok := expectDAH[p.Height]; !ok {
				expectDAH[p.Height] = p.DAH
			}
			if op.Consistent && (!p.Valid || !bytes.Equal(p.DAH, p.DataHash)) {
				viol("published-header-inconsistent", fmt.Sprintf("op %d: the header published for a consistent block does not validate / its DAH does not hash to the data hash", i))
			}
		}
		// a header whose time is inside the storage window (also in its last hour) is never refused as outside
		if op.Kind == "avail" && !op.Old && op.Code == 31 {
			viol("in-window-header-refused-as-outside:avail", fmt.Sprintf("op %d: the availability check refused height %d as outside the window although its time is inside availability.StorageWindow (edge=%v)", i, op.Height, op.Edge))
		}
		// an obtainable square for a header inside the window that is not yet kept: must now be kept
		if op.Kind == "avail" && !op.Old && op.Getter == "square" && !op.StoreFail && !crashed {
			if has, _ := n.st.HasByHeight(ctx, uint64(op.Height)); !has {
				viol("obtained-block-not-stored:avail", fmt.Sprintf("op %d: the square of in-window height %d was obtained by the availability check but is not in the store", i, op.Height))
			}
		}
		// obtainable in-window block announced for a height not yet kept: must now be kept (and published)
		if op.Kind == "core" && op.FetchOK && op.Sync != "fail" && op.ChainOK && op.AppVersion != 0 && !op.StoreFail && !crashed && (op.InWindow || h.Archival) && op.ServeHeight == op.Height {
			if has, _ := n.st.HasByHeight(ctx, uint64(op.Height)); !has {
				viol("obtained-block-not-stored", fmt.Sprintf("op %d: block %d was obtained from endpoint %d without any failure but is not in the store", i, op.Height, op.Src))
			}
		}
	}

	// ---- end-of-history oracle
	final := n.snapshot(heights)
	for _, s := range final {
		want, ok := expectDAH[s.Height]
		if !ok {
			viol("stored-without-header", fmt.Sprintf("height %d is stored but no header was published / given for it", s.Height))
		} else if wellServed && !bytes.Equal(want, s.DAH) {
			viol("stored-dah-differs-from-header", fmt.Sprintf("the square stored under height %d has DAH %X, the header published / given for it has %X", s.Height, s.DAH, want))
		}
	}
	if wellServed {
		seen := map[uint64]int{}
		for _, p := range n.bc.pubs {
			seen[p.Height]++
			if seen[p.Height] == 2 {
				viol("published-twice", fmt.Sprintf("the header of height %d was published twice", p.Height))
			}
		}
	}
	for i := range h.Ops {
		op := &h.Ops[i]
		ts := w.pool[op.TxSet]
		// with the core window disabled the same old block is inside for the listener / exchange and outside for the
		// (fixed-window) availability path: storing it is legitimate
		if op.InWindow || ts.empty || h.WinOff {
			continue
		}
		for _, s := range final {
			if s.Height == uint64(op.ServeHeight) && bytes.Equal(s.DAH, ts.roots.Hash()) {
				if !h.Archival {
					viol("pruned-stored-outside-window", fmt.Sprintf("a pruned node stored height %d whose block time is outside the window", s.Height))
				} else if s.Q4 && c15SoleUser(h, w, op.TxSet) {
					viol("archival-stored-q4-outside-window", fmt.Sprintf("an archival node stored the parity quadrant of height %d outside the window", s.Height))
				}
			}
		}
	}

	// inside the window (for every ingest path: a minute old or at the edge) the parity quadrant is kept too
	for i := range h.Ops {
		op := &h.Ops[i]
		ts := w.pool[op.TxSet]
		if op.Old || ts.empty || !c15NeverOld(h, op.TxSet) {
			continue
		}
		for _, s := range final {
			if s.Height == uint64(op.ServeHeight) && bytes.Equal(s.DAH, ts.roots.Hash()) && !s.Q4 {
				viol("in-window-stored-without-q4", fmt.Sprintf("height %d (block time inside the storage window, edge=%v) is stored without its parity quadrant", s.Height, op.Edge))
			}
		}
	}
	for i := range h.Ops {
		r.Count("block-time", h.Ops[i].Kind+"/"+map[bool]string{true: "old", false: map[bool]string{true: "edge", false: "recent"}[h.Ops[i].Edge]}[h.Ops[i].Old])
	}

	// ---- Coq case
	ops := make([]string, len(h.Ops))
	codes := make([]string, len(h.Ops))
	for i := range h.Ops {
		ops[i] = w.opTerm(&h.Ops[i])
		codes[i] = strconv.Itoa(h.Ops[i].Code)
	}
	var stores, pubs, hashes []string
	for _, s := range final {
		stores = append(stores, "("+c15N(s.Height)+", "+c15N(w.atom(s.DAH))+", "+zv.Bool(s.Q4)+")")
	}
	for _, p := range n.bc.pubs {
		pubs = append(pubs, "("+c15N(p.Height)+", "+c15N(w.atom(p.DAH))+", "+c15N(w.atom(p.DataHash))+", "+zv.Bool(p.Local)+")")
	}
	for _, x := range n.hashes {
		hashes = append(hashes, "("+c15N(x[0])+", "+c15N(x[1])+")")
	}
	term := "(mkcfg " + zv.Bool(h.Archival) + ", " + zv.List(ops) + ", mkobs " + zv.List(codes) + " " + zv.List(stores) + " " + zv.List(pubs) + " " + zv.List(hashes) + ")"
	key := "history"
	if len(h.Ops) < 2 {
		key = ""
	}
	g.Case(term, h, key)
	r.Count("history-sources", strconv.Itoa(h.Sources))
	r.Count("history-mode", map[bool]string{true: "archival", false: "pruned"}[h.Archival]+map[bool]string{true: "/via-start", false: "/direct"}[h.ViaStart]+map[bool]string{true: "/window-disabled", false: ""}[h.WinOff])
}

// c15SoleUser: the square of this transaction set is used by out-of-window blocks only (the Q4 file is per data hash).
// c15NeverOld: no block of the history with this square lies outside the window (the Q4 file is per data hash).
func c15NeverOld(h *c15History, txset int) bool {
	for _, op := range h.Ops {
		if op.TxSet == txset && op.Old {
			return false
		}
	}
	return true
}

func c15SoleUser(h *c15History, w *c15World, txset int) bool {
	for _, op := range h.Ops {
		if op.TxSet == txset && op.InWindow {
			return false
		}
	}
	return true
}

func TestVerifC15(t *testing.T) {
	r := zv.Start(t, "C15")
	defer r.Finish()
	g := r.Group("hist", c15Header, "case", "mismatches")
	rng := r.Rand()
	const nSets = 9
	w := c15NewWorld(t, rng, nSets)

	var rp c15History
	if r.ReplayInput(&rp) {
		for i := range rp.Ops {
			rp.Ops[i].Code = 0
		}
		c15Run(t, r, g, w, &rp)
		return
	}
	c15Run(t, r, g, w, c15EdgeHistory(false))
	c15Run(t, r, g, w, c15EdgeHistory(true))
	for i := 0; i < r.N(160, 2500); i++ {
		c15Run(t, r, g, w, c15GenHistory(rng.Fork(uint64(i)), nSets, false))
	}
	for i := 0; i < r.N(40, 400); i++ {
		c15Run(t, r, g, w, c15GenHistory(rng.Fork(uint64(100000+i)), nSets, true))
	}
	r.Set("transaction_sets", nSets)
}
